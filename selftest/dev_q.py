import sys, json, os
sys.path.insert(0, '/verif')
from pyvc import check
repo=os.environ.get("PYVC_REPO","/repo")
task = dict(kind="quiescent", repo=repo, seed=0, classes=["JSONDict","MemoryBufferedJSONAttrList"], props=["C01"], threads=True, label="dev")
r = check._worker(task)
print("errors", r["errors"]); print(len(r["obs"]))
for k, o in r["obs"].items():
    if o["n_failed"]: print(k, json.dumps(o["failed"][0])[:500])
