#!/usr/bin/env python3
"""selftest/results.json -> selftest/RESULTS.md (which registered quick checks report which seeded change)."""
import json
import os

ROOT = os.path.dirname(os.path.dirname(os.path.abspath(__file__)))
res = json.load(open(os.path.join(ROOT, "selftest", "results.json")))
lines = ["# Seeded changes vs checks", "",
         "Written by `selftest/make_results_md.py` from `selftest/results.json` (produced by `selftest/run_seeded.py`:",
         "each change is applied to a scratch worktree of /repo, never to /repo; the registered quick commands run with",
         "`PYVC_REPO=<scratch>`).  `detected` = exit 1 with a VIOLATION line; `replayed` = number of VIOLATION lines that",
         "carry a failing input confirmed on the real code (the others end with `no-failing-input-found`).", "",
         "| change | property | check | detected | violations | replayed | example failed obligation |", "|---|---|---|---|---|---|---|"]
det = tot = 0
missed = []
for sid in sorted(res):
    v = res[sid]
    if "error" in v:
        lines.append(f"| {sid} | - | - | ERROR: {v['error'][:80]} | | | |")
        continue
    tot += 1
    any_det = False
    if not v.get("checks"):
        lines.append(f"| {sid} | {v.get('property')} | (none: property not claimed) | - | | | |")
    for p, c in sorted(v.get("checks", {}).items()):
        d = c["exit"] == 1
        any_det = any_det or d
        ex = (c.get("sample_failed") or [""])[0].replace("failed obligation:", "").strip()
        lines.append(f"| {sid} | {v.get('property')} | {p} | {'yes' if d else ('no' if c['exit'] == 0 else 'exit ' + str(c['exit']))} "
                     f"| {c.get('violations', 0)} | {c.get('confirmed', 0)} | `{ex[:110]}` |")
    det += any_det
    if not any_det:
        missed.append(sid)
lines += ["", f"**{det} of {tot} seeded changes are reported by at least one registered check.**", "",
          "Not reported: " + (", ".join(missed) if missed else "none")]
open(os.path.join(ROOT, "selftest", "RESULTS.md"), "w").write("\n".join(lines) + "\n")
# compact per-change summary (pasted into DESIGN.md 11.8)
summ = ["| change | seeded for | reported by | not reported by |", "|---|---|---|---|"]
for sid in sorted(res):
    v = res[sid]
    if "error" in v:
        continue
    yes = [p for p, c in sorted(v.get("checks", {}).items()) if c["exit"] == 1]
    no = [p + ("" if c["exit"] == 0 else f" (exit {c['exit']})") for p, c in sorted(v.get("checks", {}).items()) if c["exit"] != 1]
    summ.append(f"| {sid} | {v.get('property')} | {', '.join(yes) or '-'} | {', '.join(no) or '-'} |")
open(os.path.join(ROOT, "selftest", "SUMMARY.md"), "w").write("\n".join(summ) + "\n")
print(f"{det}/{tot} detected; missed: {missed}")
