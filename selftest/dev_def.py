import sys, json, os
sys.path.insert(0, '/verif')
from pyvc import check
repo=os.environ.get("PYVC_REPO","/repo")
task = dict(kind="defs", repo=repo, seed=0, cname=sys.argv[1], role=sys.argv[3], rootkind=(sys.argv[4] if len(sys.argv)>4 and sys.argv[4] else None),
            functions=sys.argv[2].split(","), props=[sys.argv[5] if len(sys.argv)>5 else "C16"], threads=True, label="dev")
r = check._worker(task)
print("errors", r["errors"]); print("unsupported", r["unsupported"]); print("paths", r["paths"], "wall", r["wall"])
nf=0
for k, o in r["obs"].items():
    if o["n_failed"] or o["n_undecided"]:
        nf+=1
        print(k, o["vcs"], o["discharged"], o["n_failed"], o["n_undecided"]); print("   FAILED", json.dumps((o["failed"] or o["undecided"])[0])[:700])
print(len(r["obs"]), "obligations;", nf, "failing")
