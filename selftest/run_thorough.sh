#!/bin/bash
# runs every registered thorough command once (used to confirm they work; evidence goes to a scratch directory)
cd "$(dirname "$0")/.."
export PYVC_EVIDENCE_DIR=${PYVC_EVIDENCE_DIR:-/tmp/pyvc_thorough_ev}
for p in C19 C11 C09 C08 C18 C16 C01 C14 C17 C06 C07 C15 C10 C03 C12 C02 C04 C05; do
  python3-vt pyvc/check.py --property $p --tier thorough > /tmp/pyvc_thorough_$p.log 2>&1
  echo "$p exit=$? $(grep '^property=' /tmp/pyvc_thorough_$p.log | tail -1)"
done
