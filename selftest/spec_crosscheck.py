#!/usr/bin/env python3
"""CPython cross-check of the hand-instantiated [SPEC-BUILTIN] axioms (run under python3-vt).

For random concrete lists / dicts and every write operation symbol the engine knows, the term `read(write(c0, ...))`
is built over an opaque constant c0, the engine's OWN axiom generator (obligations.closure_axioms) is asked for its
instances, the interpretation of c0 is fixed by facts computed with real Python (length and every element / key),
and the value real Python gives for the read is asserted.  If the axioms contradict CPython the conjunction is
UNSAT: reported as a mismatch.  (A wrong axiom would make proofs unsound; a missing one only makes them fail.)

    python3-vt selftest/spec_crosscheck.py [n_cases]      exit 0: no mismatch, 1: mismatch found"""
import os
import random
import sys

import z3

ROOT = os.path.dirname(os.path.dirname(os.path.abspath(__file__)))
sys.path.insert(0, ROOT)
from pyvc import smt, builtins_spec as bs, obligations  # noqa: E402
from pyvc.smt import Val, VInt, VStr  # noqa: E402


def vi(n):
    return VInt(z3.IntVal(n))


def vs(s):
    return VStr(z3.StringVal(s))


def facts_list(c, l):
    fs = [bs.list_len(c) == len(l)]
    for k, x in enumerate(l):
        fs.append(bs.list_get(c, vi(k)) == vi(x))
    return fs


def check(formulas, what):
    ax = obligations.closure_axioms(formulas)
    s = z3.Solver()
    s.set("timeout", 20000)
    for f in formulas + ax:
        s.add(f)
    r = s.check()
    if r == z3.unsat:
        print("MISMATCH with CPython:", what)
        return False
    return True


def list_cases(rng):
    l = [rng.randint(0, 9) for _ in range(rng.randint(0, 5))]
    c0 = smt.fresh("c0")
    base = facts_list(c0, l)
    out = []
    # setitem
    if l:
        i = rng.randrange(len(l)); x = rng.randint(10, 19)
        l2 = list(l); l2[i] = x
        t = bs.list_set(c0, vi(i), vi(x))
        out.append((t, l2, f"list_set {l} [{i}]={x}"))
    x = rng.randint(10, 19)
    out.append((bs.list_append(c0, vi(x)), l + [x], f"list_append {l} {x}"))
    m = [rng.randint(20, 29) for _ in range(rng.randint(0, 3))]
    c1 = smt.fresh("c1")
    base += facts_list(c1, m)
    out.append((bs.list_extend(c0, c1), l + m, f"list_extend {l} {m}"))
    n = rng.randint(0, len(l) + 1)
    l3 = list(l); del l3[n:]
    out.append((bs.list_del(c0, bs.mk_slice(vi(n), smt.VNone, smt.VNone)), l3, f"del {l}[{n}:]"))
    out.append((bs.list_slice_from(c0, vi(n)), l[n:], f"{l}[{n}:]"))
    out.append((bs.list_of(c0), list(l), f"list({l})"))
    ok = True
    for (t, res, what) in out:
        fs = list(base) + [bs.list_len(t) == len(res)]
        ok &= check(fs, what + " : len")
        for j in range(len(res)):
            fs = list(base) + [bs.list_get(t, vi(j)) == vi(res[j])]
            ok &= check(fs, what + f" : [{j}]")
    return ok, len(out)


def read_cases(rng):
    """list.count / list.index(x, start, stop): the definitional axioms used by the loop invariants of the inherited
    Sequence mixins (contracts/tree.py) + the engine's closure instances, against CPython's answers."""
    from contracts import tree as T
    l = [rng.randint(0, 3) for _ in range(rng.randint(0, 6))]
    x = rng.randint(0, 3)
    c0 = smt.fresh("c0")
    base = facts_list(c0, l)
    X = vi(x)
    for k, e in enumerate(l):       # Python == between the elements and the value, as CPython decides it
        base.append(smt.pyeq(bs.list_get(c0, vi(k)), X) == z3.BoolVal(e == x))
    idxs = [z3.IntVal(k) for k in range(len(l))]
    ok = True
    fs = list(base) + T.count_axioms(c0, X, idxs) + [bs.list_count(c0, X) == l.count(x)]
    ok &= check(fs, f"{l}.count({x})")
    start, stop = rng.randint(-8, 8), rng.randint(-8, 8)
    n = len(l)
    lo = max(n + start, 0) if start < 0 else start
    hi = max(n + stop, 0) if stop < 0 else stop
    LO, HI = z3.IntVal(lo), z3.IntVal(hi)
    fs = list(base) + T.index_in_axioms(c0, X, LO, HI, idxs)
    try:
        r = l.index(x, start, stop)
        fs += [bs.list_contains_in(c0, X, VInt(LO), VInt(HI)), bs.list_index_in(c0, X, VInt(LO), VInt(HI)) == r]
    except ValueError:
        fs += [z3.Not(bs.list_contains_in(c0, X, VInt(LO), VInt(HI)))]
    ok &= check(fs, f"{l}.index({x}, {start}, {stop})")
    # and the opposite answer must be refuted when there is a hit (the axioms pin the result down)
    try:
        r = l.index(x, start, stop)
        wrong = list(base) + T.index_in_axioms(c0, X, LO, HI, idxs) + \
            [bs.list_contains_in(c0, X, VInt(LO), VInt(HI)), bs.list_index_in(c0, X, VInt(LO), VInt(HI)) != r]
        ax = obligations.closure_axioms(wrong)
        sv = z3.Solver()
        sv.set("timeout", 20000)
        for f in wrong + ax:
            sv.add(f)
        if sv.check() != z3.unsat:
            print("UNDERSPECIFIED (not unsound):", f"{l}.index({x}, {start}, {stop}) != {r} is not refuted")
    except ValueError:
        pass
    return ok, 2


def dict_cases(rng):
    keys = ["a", "b", "c", "d"]
    d = {k: rng.randint(0, 9) for k in rng.sample(keys, rng.randint(0, 3))}
    c0 = smt.fresh("d0")
    base = [bs.dict_len(c0) == len(d)]
    for k in keys:
        base.append(bs.dict_has(c0, vs(k)) == z3.BoolVal(k in d))
        if k in d:
            base.append(bs.dict_get(c0, vs(k)) == vi(d[k]))
    out = []
    k = rng.choice(keys); x = rng.randint(10, 19)
    d2 = dict(d); d2[k] = x
    out.append((bs.dict_set(c0, vs(k), vi(x)), d2, f"dict_set {d} [{k}]={x}"))
    if d:
        k = rng.choice(list(d))
        d3 = dict(d); del d3[k]
        out.append((bs.dict_del(c0, vs(k)), d3, f"del {d}[{k}]"))
        # popitem: CPython removes the last inserted item; the spec only says "one of its items" - the check fixes
        # the popped key to the one CPython popped
        d4 = dict(d); pk, pv = d4.popitem()
        pair = bs.dict_popitem_pair(c0)
        base2 = [smt.F("unpack2_0", Val, Val)(pair) == vs(pk)]
        out.append((bs.dict_popitem_rest(c0), d4, f"popitem {d}", base2 + [smt.F("unpack2_1", Val, Val)(pair) == vi(pv)]))
    ok = True
    for item in out:
        t, res, what = item[0], item[1], item[2]
        extra = item[3] if len(item) > 3 else []
        for k in keys:
            fs = list(base) + extra + [bs.dict_has(t, vs(k)) == z3.BoolVal(k in res)]
            ok &= check(fs, what + f" : has {k}")
            if k in res:
                fs = list(base) + extra + [bs.dict_get(t, vs(k)) == vi(res[k])]
                ok &= check(fs, what + f" : get {k}")
    # truthiness of a dict value
    tr = smt.F("truthy", Val, smt.BoolS)(c0)
    ok &= check(list(base) + [smt.tyof(c0) == z3.IntVal(smt.tid_of("dict")), tr == z3.BoolVal(bool(d))], f"bool({d})")
    return ok, len(out)


def main():
    n = int(sys.argv[1]) if len(sys.argv) > 1 else 150
    rng = random.Random(int(os.environ.get("VERIF_SEED", "0") or 0))
    ok, cases = True, 0
    for _ in range(n):
        a, c = list_cases(rng)
        b, e = dict_cases(rng)
        r_ok, r_n = read_cases(rng)
        ok &= a and b and r_ok
        cases += c + e + r_n
    # negative control: a deliberately wrong fact must be refuted (the harness can see a contradiction at all)
    c0 = smt.fresh("c0")
    fs = facts_list(c0, [1, 2]) + [bs.list_get(bs.list_append(c0, vi(7)), vi(2)) == vi(8)]
    ax = obligations.closure_axioms(fs)
    s = z3.Solver()
    for f in fs + ax:
        s.add(f)
    control = s.check() == z3.unsat
    print(f"spec cross-check: {cases} operation instances, mismatches: {'none' if ok else 'FOUND'}; negative control "
          f"{'refuted (good)' if control else 'NOT refuted (harness blind)'}")
    return 0 if ok and control else 1


if __name__ == "__main__":
    sys.exit(main())
