import sys, json
sys.path.insert(0, '/verif')
from pyvc import check
task = dict(kind="api", repo=__import__("os").environ.get("PYVC_REPO","/repo"), seed=0, cname=sys.argv[1], role=sys.argv[3], rootkind=(sys.argv[4] if len(sys.argv)>4 else None),
            methods=sys.argv[2].split(","), props=sys.argv[5].split(",") if len(sys.argv)>5 else ["C03"], threads=True, label="dev")
r = check._worker(task)
print("errors", r["errors"]); print("unsupported", r["unsupported"]); print("paths", r["paths"])
for k, o in r["obs"].items():
    print(k, o["vcs"], o["discharged"], o["n_failed"], o["n_undecided"])
    if o["n_failed"]: print("   FAILED", json.dumps(o["failed"][0])[:1500])
