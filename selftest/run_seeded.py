#!/usr/bin/env python3
"""Seeded-change self-test: apply each /verif/seeded/<id>/patch.diff to a SCRATCH worktree of /repo (never to
/repo itself), run the registered quick checks against it (PYVC_REPO=<scratch>), record which checks report
a violation, remove the worktree.  Results: selftest/results.json (+ a table on stdout).

  python3-vt selftest/run_seeded.py [--only ID[,ID]] [--props own|all|C01,C03] [--out FILE]
"""
import argparse
import json
import os
import shutil
import subprocess
import sys
import tempfile
import time

ROOT = os.path.dirname(os.path.dirname(os.path.abspath(__file__)))
REPO = "/repo"


def claimed():
    m = json.load(open(os.path.join(ROOT, "MANIFEST.json")))
    return [c["property_id"] for c in m["checks"]]


def main():
    ap = argparse.ArgumentParser()
    ap.add_argument("--only")
    ap.add_argument("--props", default="own")
    ap.add_argument("--out", default=os.path.join(ROOT, "selftest", "results.json"))
    a = ap.parse_args()
    ids = sorted(os.listdir(os.path.join(ROOT, "seeded")))
    if a.only:
        ids = [i for i in ids if i in a.only.split(",")]
    cl = claimed()
    results = {}
    if os.path.exists(a.out):
        try:
            results = json.load(open(a.out))
        except Exception:
            results = {}
    for sid in ids:
        d = os.path.join(ROOT, "seeded", sid)
        meta = json.load(open(os.path.join(d, "meta.json")))
        if a.props == "own":
            props = [meta["property"]] + meta.get("also", [])
        elif a.props == "all":
            props = cl
        else:
            props = a.props.split(",")
        props = [p for p in props if p in cl]
        wt = tempfile.mkdtemp(prefix="pyvc_seeded_")
        os.rmdir(wt)
        subprocess.run(["git", "-C", REPO, "worktree", "add", "-q", "--detach", wt, "HEAD"], check=True)
        try:
            r = subprocess.run(["git", "-C", wt, "apply", os.path.join(d, "patch.diff")], capture_output=True, text=True)
            if r.returncode != 0:
                results[sid] = {"error": "patch does not apply: " + r.stderr[-300:]}
                continue
            evd = tempfile.mkdtemp(prefix="pyvc_ev_")
            entry = results.get(sid, {"property": meta["property"], "checks": {}})
            for p in props:
                t = time.time()
                env = dict(os.environ, PYVC_REPO=wt, PYVC_EVIDENCE_DIR=evd, PYVC_REPLAY_DIR=os.path.join(evd, "replays"))
                rr = subprocess.run(["python3-vt", os.path.join(ROOT, "pyvc", "check.py"), "--property", p, "--tier", "quick"],
                                    env=env, capture_output=True, text=True, cwd=ROOT)
                lines = [l for l in rr.stdout.splitlines() if l.startswith(("VIOLATION", "CHECKER-ERROR", "UNDECIDED", "property="))]
                failed = [l.strip() for l in rr.stdout.splitlines() if l.strip().startswith("failed obligation:")]
                entry["checks"][p] = {"exit": rr.returncode, "wall_s": round(time.time() - t, 1),
                                      "violations": sum(1 for l in lines if l.startswith("VIOLATION")),
                                      "confirmed": sum(1 for l in lines if l.startswith("VIOLATION") and "no-failing-input-found" not in l),
                                      "sample_failed": failed[:4], "summary": lines[-1] if lines else rr.stderr[-300:]}
                print(f"{sid:10s} {p}: exit={rr.returncode} {entry['checks'][p]['summary'][:150]}", flush=True)
            results[sid] = entry
            shutil.rmtree(evd, ignore_errors=True)
        finally:
            subprocess.run(["git", "-C", REPO, "worktree", "remove", "--force", wt])
            json.dump(results, open(a.out, "w"), indent=1)
    det = sum(1 for v in results.values() if any(c["exit"] == 1 for c in v.get("checks", {}).values()))
    print(f"{det} of {len(results)} seeded changes detected by at least one check run so far")


if __name__ == "__main__":
    sys.exit(main())
