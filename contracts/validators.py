"""Value tier: the spec predicates of C11 / C12 and the contracts + loop invariants of the four validators.

Spec predicates (from the property statements, NOT from the code):
  strkeys(v)  every mapping key at every depth (through sequences too) is a str
  json_ok(v)  v is None/bool/int/float/str, or a mapping with str keys and json_ok values, or a non-str
              sequence of json_ok items
  nodot(v)    no str mapping key at any depth contains "."
They are uninterpreted symbols with ONE-LEVEL unfolding axioms that are instantiated by hand (DESIGN.md 2.4):
for a universally quantified body "all items of v are fine" we use the witness function w_P(v) (an index of
an offending item if there is one):   P(v) and i in range  =>  fine_P(v, i)           (A1, any i)
                                      (w_P(v) in range => fine_P(v, w_P(v)))  =>  P(v)  (A2)
"""
import z3

from pyvc import smt
from pyvc.smt import Val, IntS, BoolS, F
from pyvc.values import Z, Const, Raise, Unsupported, to_val
from pyvc.contracts import Contract, Case
from pyvc.loops import LoopSpec, item_key, item_val, seq_at, plain_len
from pyvc import builtins_spec as bs

strkeys = F("strkeys", Val, BoolS)
json_ok = F("json_ok", Val, BoolS)
nodot = F("nodot", Val, BoolS)
str_contains = F("str_contains", Val, Val, BoolS)
DOT = smt.VStr(z3.StringVal("."))

PRED = {"strkeys": strkeys, "json_ok": json_ok, "nodot": nodot}


def witness(pname):
    return F("w_" + pname, Val, IntS)


def MAP(v):
    return smt.isinstance_(v, "Mapping")


def SEQ(v):
    return z3.And(smt.isinstance_(v, "Sequence"), z3.Not(smt.isinstance_(v, "str")))


def BASE(v):
    return smt.or_([smt.isinstance_(v, n) for n in ("str", "int", "float", "bool", "NoneType")])


def is_str(v):
    return smt.isinstance_(v, "str")


def type_discipline(v):
    """[A-JSONTYPES] the type categories are mutually exclusive (exotic types that are at once a Mapping and a
    Sequence, or a scalar that is also a container, are outside the quantifier of C11/C12)."""
    return z3.And(z3.Not(z3.And(MAP(v), SEQ(v))), z3.Implies(BASE(v), z3.And(z3.Not(MAP(v)), z3.Not(SEQ(v)))))


def mlen(v):
    return bs.dict_len(v)


def fine(pname, v, i, mapping):
    """The i-th item of v is fine for predicate pname."""
    P = PRED[pname]
    if mapping:
        k, x = item_key(v, i), item_val(v, i)
        if pname == "strkeys":
            return z3.And(is_str(k), P(x))
        if pname == "json_ok":
            return z3.And(is_str(k), P(x))
        return z3.And(z3.Implies(is_str(k), z3.Not(str_contains(k, DOT))), P(x))
    return P(seq_at(v, i))


def unfold(pname, v, idxs=()):
    """One-level unfolding of P(v), instantiated at the given indices and at the witness."""
    P = PRED[pname]
    w = witness(pname)(v)
    out = []
    mw = z3.Implies(z3.And(w >= 0, w < mlen(v)), fine(pname, v, w, True))
    sw = z3.Implies(z3.And(w >= 0, w < plain_len(v)), fine(pname, v, w, False))
    if pname == "json_ok":
        out.append(P(v) == z3.Or(BASE(v), z3.And(MAP(v), mw), z3.And(SEQ(v), z3.Not(MAP(v)), sw)))
        for i in idxs:
            out.append(z3.Implies(z3.And(P(v), MAP(v), i >= 0, i < mlen(v)), fine(pname, v, i, True)))
            out.append(z3.Implies(z3.And(P(v), SEQ(v), z3.Not(MAP(v)), z3.Not(BASE(v)), i >= 0, i < plain_len(v)),
                                  fine(pname, v, i, False)))
    else:
        out.append(P(v) == z3.And(z3.Implies(MAP(v), mw), z3.Implies(z3.And(SEQ(v), z3.Not(MAP(v))), sw)))
        for i in idxs:
            out.append(z3.Implies(z3.And(P(v), MAP(v), i >= 0, i < mlen(v)), fine(pname, v, i, True)))
            out.append(z3.Implies(z3.And(P(v), SEQ(v), z3.Not(MAP(v)), i >= 0, i < plain_len(v)),
                                  fine(pname, v, i, False)))
    out.append(mlen(v) >= 0)
    out.append(plain_len(v) >= 0)
    return out


# what each validator function establishes / requires (normal return  <=>  this predicate)
def validator_pred(name, v):
    if name == "require_string_key":
        return strkeys(v)
    if name == "json_format_validator":
        return json_ok(v)
    if name == "no_dot_in_key":
        return z3.And(nodot(v), strkeys(v))
    if name == "json_attr_dict_validator":
        return z3.And(json_ok(v), nodot(v))
    raise KeyError(name)


VALIDATOR_PREDS = {
    "require_string_key": ["strkeys"],
    "json_format_validator": ["json_ok"],
    "no_dot_in_key": ["nodot", "strkeys"],
    "json_attr_dict_validator": ["json_ok", "nodot"],
}


class ValidatorContract(Contract):
    """validator(data): returns normally iff its predicate holds of `data`, else raises a TypeError / ValueError
    subclass; no effect on any state (validators are pure)."""
    params = ("data",)

    def __init__(self, fname):
        self.fname = fname
        self.name = fname

    def cases(self, cx):
        def ok(c):
            return validator_pred(self.fname, to_val(c.b["data"]))
        return [
            Case("accepts", "normal", guard=ok, result=lambda c: Const(None),
                 post=lambda c: [("C11:sound", ok(c))]),
            Case("rejects", "raise", guard=lambda c: z3.Not(ok(c)), exc=("TypeError", "ValueError"),
                 post=lambda c: [("C12:complete", z3.Not(ok(c)))]),
        ]


class ValidatorLoop(LoopSpec):
    """for key, value in data.items(): ...   /   for value in data: ...
    Invariant (pointwise at the witnesses): every visited item is fine."""
    def __init__(self, fname, mapping, via_list=False):
        self.fname = fname
        self.mapping = mapping
        self.via_list = via_list

    def data(self, L, st):
        from pyvc.loops import param_name
        nm = param_name(L.fi, 0)
        return to_val(L.entry.loc[nm] if L.entry is not None else st.loc[nm])

    def prepare(self, L, st):
        from pyvc.loops import param_name
        d = to_val(st.loc[param_name(L.fi, 0)])
        for k, pname in enumerate(VALIDATOR_PREDS[self.fname]):
            L.sk[f"idx_{pname}"] = witness(pname)(d)
        for f in self.link(L, st, d):
            st.assume(f)

    def link(self, L, st, d):
        """The loop's element sequence is the enumeration the predicates talk about."""
        out = []
        if self.via_list:       # for key in list(data)  over a mapping: the keys, in enumeration order
            lt = L.seq.term
            out.append(plain_len(lt) == mlen(d))
        return out

    def iteration_facts(self, L, st, i):
        d = self.data(L, st)
        out = []
        for pname in VALIDATOR_PREDS[self.fname]:
            out.extend(unfold(pname, d, [i]))
        if self.via_list:
            out.append(seq_at(L.seq.term, i) == item_key(d, i))
            out.append(bs.dict_get(d, item_key(d, i)) == item_val(d, i))
        return out

    def invariant(self, L, st, vis):
        d = self.data(L, st)
        n = mlen(d) if self.mapping else plain_len(d)
        out = []
        for pname in VALIDATOR_PREDS[self.fname]:
            w = L.sk[f"idx_{pname}"]
            out.append((f"visited-fine:{pname}", z3.Implies(z3.And(w >= 0, w < n, vis(w)),
                                                             fine(pname, d, w, self.mapping))))
        return out

    def at_exit(self, L, st):
        d = self.data(L, st)
        out = []
        for pname in VALIDATOR_PREDS[self.fname]:
            out.extend(unfold(pname, d, []))
        return out


def register(eng):
    for fname in VALIDATOR_PREDS:
        eng.contracts[fname] = ValidatorContract(fname)
    eng.loop_specs[("no_dot_in_key", 1)] = ValidatorLoop("no_dot_in_key", True)
    eng.loop_specs[("no_dot_in_key", 2)] = ValidatorLoop("no_dot_in_key", False)
    eng.loop_specs[("require_string_key", 1)] = ValidatorLoop("require_string_key", True)
    eng.loop_specs[("require_string_key", 2)] = ValidatorLoop("require_string_key", False)
    eng.loop_specs[("json_format_validator", 1)] = ValidatorLoop("json_format_validator", True)
    eng.loop_specs[("json_format_validator", 2)] = ValidatorLoop("json_format_validator", False)
    eng.loop_specs[("json_attr_dict_validator", 1)] = ValidatorLoop("json_attr_dict_validator", True, via_list=True)
    eng.loop_specs[("json_attr_dict_validator", 2)] = ValidatorLoop("json_attr_dict_validator", False)


def singleton_axioms(lit, k, v):
    """The spec predicates on a one-item mapping literal {k: v} (one-level unfolding with the single item)."""
    out = []
    for pname, P in PRED.items():
        if pname == "nodot":
            out.append(P(lit) == z3.And(z3.Implies(is_str(k), z3.Not(str_contains(k, DOT))), P(v)))
        else:
            out.append(P(lit) == z3.And(is_str(k), P(v)))
    return out


def family_lemmas(v):
    """json_ok(v) => strkeys(v)  (lemma, proved by induction in props/validators.py), instantiated at v."""
    return [z3.Implies(json_ok(v), strkeys(v))]
