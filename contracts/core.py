"""Central contracts of the protocol tier (DESIGN.md 4.4): _validate, _from_base, _update, _to_base,
_load, _save, _load_from_resource, _save_to_resource.

Top-level clauses are named `<property>:<clause>`; they are the obligations reported in the evidence.
"""
import z3

from pyvc import smt
from pyvc.smt import Val, VNone, VAbsent, VRef, IntS, BoolS, F, pyeq
from pyvc.values import Z, Bv, Iv, Const, ObjV, ClassV, TupleV, KwV, Unsupported, to_val, as_int
from pyvc.contracts import Contract, Case
from pyvc import builtins_spec as bs
from pyvc import scene as sc

EXC_VALIDATION = ("TypeError", "ValueError")
EXC_IO = ("OSError",)



def is_mapping(v):
    """What `_mapping_resolver.get_type(v) == "MAPPING"` computes (resolver contract, C19)."""
    return smt.isinstance_(v, "Mapping")


def is_sequence(v):
    """What `_sequence_resolver.get_type(v) == "SEQUENCE"` computes, numpy absent (C19)."""
    return z3.And(smt.isinstance_(v, "Sequence"), z3.Not(smt.isinstance_(v, "str")))


validator_ok = F("validator_ok", IntS, Val, BoolS)   # validator v accepts the value (defined by C11's contracts)
serialisable = F("serialisable", Val, BoolS)         # json.dumps / the client accepts the plain value [E-JSON]
convert_numpy = F("convert_numpy", Val, Val)


def vid(name):
    return z3.IntVal(smt.tid_of("validator:" + name))


def allowed(eng, ci, v):
    """A value passes all validators of concrete class ci (the reflected _all_validators tuple); each validator
    accepts exactly its spec predicate (contracts/validators.py, proved against the validator bodies)."""
    from contracts import validators as V
    names = eng.R["classes"][ci.name]["all_validators"]
    return smt.and_([V.validator_pred(n, v) for n in names])


def node(cx, st, v):
    """Facts about a KNOWN node object."""
    if not isinstance(v, ObjV):
        raise Unsupported("contract needs a known node, got " + repr(v))
    rec = st.rec(v)
    r = rec.fields.get("_root")
    root = r if isinstance(r, ObjV) else v
    susp = st.rec(rec.fields["_suspend_sync"]).fields["_count"]
    return dict(obj=v, rec=rec, root=root, n=z3.IntVal(v.addr), rn=z3.IntVal(root.addr),
                kind=sc.kind_of_class(cx.eng, rec.cls), susp=as_int(susp), cls=rec.cls,
                rid=sc.resid(cx.eng, st, root), is_root=(root.addr == v.addr))


def tree_nodes(st, root):
    """Known node objects whose root is `root` (including it)."""
    out = []
    for a, rec in st.objs.items():
        if not rec.tag.startswith("node"):
            continue
        r = rec.fields.get("_root")
        if a == root.addr or (isinstance(r, ObjV) and r.addr == root.addr):
            out.append(ObjV(a))
    return out


def buffered_term(cx, st, root):
    """z3 Bool: root._is_buffered (False for unbuffered classes)."""
    rec = st.rec(root)
    if "buffered" not in rec.fields:
        return z3.BoolVal(False)
    bobj = as_int(st.rec(rec.fields["buffered"]).fields["_count"])
    ctx = st.statics.get((rec.cls.name, "_buffer_context"))
    bctx = as_int(st.rec(ctx).fields["_count"])
    return z3.Or(bobj > 0, bctx > 0)


def iv(cx, st, v):
    """[N-VIEW] plain image of a value that may be / contain synced nodes (see Intrinsics.iv)."""
    return cx.eng.intr.iv(st, v)


# ----------------------------------------------------------------------------------------------
class ValidateContract(Contract):
    """SyncedCollection._validate(self, data): returns iff every validator of type(self) accepts `data`;
    otherwise raises a TypeError/ValueError subclass.  No effect on any state."""
    name = "SyncedCollection._validate"
    params = ("self", "data")

    def cases(self, cx):
        def ok(c):
            return allowed(c.eng, c.pre.rec(c.b["self"]).cls, to_val(c.b["data"]))
        def post_ok(c):
            if c.mode == "assume":
                c.post.event("validated", c.b["self"].addr, to_val(c.b["data"]))
            return []

        def post_rej(c):
            if c.mode == "assume":
                c.post.event("rejected", c.b["self"].addr, to_val(c.b["data"]))
            return []
        return [
            Case("accepted", "normal", guard=ok, result=lambda c: Const(None), post=post_ok),
            Case("rejected", "raise", guard=lambda c: z3.Not(ok(c)), exc=EXC_VALIDATION, post=post_rej),
        ]


class FromBaseContract(Contract):
    """SyncedCollection._from_base(cls, data, parent=...): a mapping / non-str sequence becomes a FRESH node of
    cls's family whose view is plain(data); anything else is returned as is (numpy conversion aside)."""
    name = "SyncedCollection._from_base"
    params = ("cls", "data")
    kwargs_domain = ("parent",)      # **kwargs are forwarded to the constructor: the contract covers `parent` only

    def cases(self, cx):
        def is_coll(c):
            d = to_val(c.b["data"])
            return z3.Or(is_mapping(d), is_sequence(d))

        def mod(c):
            # a nested node registers the lock of its (None) lock id in its class's table
            return [("g", "View"), ("g", "Cell"), ("g", "Alloc")] + [("g", n) for n in c.pre.g if n.startswith("LockDom:")]

        def post_node(c):
            d = to_val(c.b["data"])
            r = to_val(c.result)
            a = Val.addr(r)
            pre, post = c.pre, c.post
            if isinstance(c.result, ObjV):
                # definition side: the constructor produced a python-side known object
                freshcl = z3.BoolVal(c.result.addr not in pre.objs)
            else:
                freshcl = z3.And(smt.is_VRef(r), a >= pre.g["Alloc"], post.g["Alloc"] > a)
            out = [
                ("C16:fresh", freshcl),
                ("C02:view", post.sel("View", a) == bs.plain(iv(c, pre, c.b["data"]))),
                ("frame:old-objects", below_alloc_unchanged(c, ("View", "Cell"))),
                ("C18:family", family_of(c, a, d)),
                ("C10:lock-tables-only-grow", locks_monotone(c)),
            ]
            return out

        def post_scalar(c):
            d = to_val(c.b["data"])
            r = to_val(c.result)
            if c.eng.mode.get("numpy"):
                return [("C12:leaf-kept", r == convert_numpy(d))]
            return [("C12:leaf-kept", r == d)]

        def family_of(c, a, d):
            ci = c.b["cls"].ci if isinstance(c.b["cls"], ClassV) else c.pre.rec(c.b["cls"]).cls
            fd, fl = sc.family(c.eng, ci)
            if isinstance(c.result, ObjV):
                got = c.post.rec(c.result).cls.name
                return z3.If(is_mapping(d), z3.BoolVal(got == fd.name), z3.BoolVal(got == fl.name))
            return z3.If(is_mapping(d), smt.ClsOf(a) == z3.IntVal(smt.tid_of(fd.name)),
                         smt.ClsOf(a) == z3.IntVal(smt.tid_of(fl.name)))

        return [
            Case("collection", "normal", guard=is_coll, modifies=mod, post=post_node,
                 result=lambda c: Z(smt.fresh("newnode"), "node", {"fresh_node": True, "fb_src": to_val(c.b["data"])})),
            Case("leaf", "normal", guard=lambda c: z3.Not(is_coll(c)), post=post_scalar,
                 result=lambda c: Z(smt.fresh("leaf"), None, {"fb_src": to_val(c.b["data"])})),
        ]


def interest_addrs(st):
    """Addresses the current state talks about: known objects and their _data cells."""
    out = []
    for a, rec in st.objs.items():
        out.append(z3.IntVal(a))
        dv = rec.fields.get("_data")
        if isinstance(dv, Z):
            out.append(Val.addr(dv.term))
    for v in st.statics.values():
        if isinstance(v, Z) and v.hint in ("dict", "list"):
            out.append(Val.addr(v.term))
    for t in st.ghost.get("skolem_addr", []):
        out.append(t)
    for t in st.ghost.get("frame_cells", []):
        out.append(t)
    return out


def below_alloc_unchanged(c, names):
    """forall x < Alloc: g'[x] == g[x].  Assumed: instantiated at the addresses of interest.
    Proved: for one Skolem address (pointwise rule, DESIGN.md 2.4)."""
    pre, post = c.pre, c.post
    if c.mode == "assume":
        cl = []
        for x in interest_addrs(pre):
            for n in names:
                cl.append(z3.Implies(x < pre.g["Alloc"], z3.Select(post.g[n], x) == z3.Select(pre.g[n], x)))
        return smt.and_(cl)
    x0 = pre.ghost["skolem_addr"][0]
    newobjs = [z3.IntVal(a) for a in post.objs if a not in pre.objs]
    return z3.Implies(z3.And(x0 < pre.g["Alloc"], *[x0 != a for a in newobjs]),
                      smt.and_([z3.Select(post.g[n], x0) == z3.Select(pre.g[n], x0) for n in names]))


RES_STATE = ("Res", "Wr", "FS", "Meta", "FsTick")


def res_mod(c):
    """A save may touch the target resource and (JSON back end, atomic mode) a temporary file next to it."""
    return [("g", n) for n in RES_STATE if n in c.pre.g]


def other_resources_unchanged(c, rid):
    """forall p != rid that exists before the call: content, bytes and write count of p are unchanged.
    Assumed: instantiated at the resources of the known roots.  Proved: for one Skolem resource id."""
    pre, post = c.pre, c.post

    def same(p):
        cl = [post.sel("Res", p) == pre.sel("Res", p), post.sel("Wr", p) == pre.sel("Wr", p)]
        if "FS" in pre.g:
            cl.append(post.sel("FS", p) == pre.sel("FS", p))
            cl.append(post.sel("Meta", p) == pre.sel("Meta", p))
        return smt.and_(cl)

    def existed(p):
        e = pre.sel("Res", p) != VAbsent
        if "FS" in pre.g:
            e = z3.Or(e, pre.sel("FS", p) != VAbsent)
        # ... or is a name the program holds (the file of a collection that has not been written yet) [E-UUID]
        return z3.Or(e, smt.known_name(p))
    if c.mode == "assume":
        cl = []
        for a, rec in pre.objs.items():
            if rec.tag.startswith("node") and not isinstance(rec.fields.get("_root"), ObjV):
                p = sc.resid(c.eng, pre, ObjV(a))
                cl.append(z3.Implies(z3.And(p != rid, existed(p)), same(p)))
        for p in list(pre.ghost.get("skolem_res", [])) + list(pre.ghost.get("skolem_files", [])):
            cl.append(z3.Implies(z3.And(p != rid, existed(p)), same(p)))
        return smt.and_(cl)
    p0 = pre.ghost["skolem_res"][0]
    return z3.Implies(z3.And(p0 != rid, existed(p0)), same(p0))


def locks_monotone(c):
    """Inv.locks: lock tables only grow (pointwise, at the lock ids of the known nodes / a Skolem id)."""
    cl = []
    for n in c.pre.g:
        if not n.startswith("LockDom:"):
            continue
        keys = []
        if c.mode == "assume":
            for a, rec in c.pre.objs.items():
                if rec.tag.startswith("node") and "_filename" in rec.fields:
                    keys.append(to_val(rec.fields["_filename"]))
            keys.extend(c.pre.ghost.get("skolem_res", []))
        else:
            keys = [c.pre.ghost["skolem_res"][0]]
        for k in keys:
            cl.append(z3.Implies(z3.Select(c.pre.g[n], k), z3.Select(c.post.g[n], k)))
    return smt.and_(cl)



class FromBaseMapContract(Contract):
    """Lifted form of _from_base for `[self._from_base(data=v, parent=self) for v in xs]`:
    a fresh list value whose element-wise view is plain(xs) (per-element contract: FromBaseContract)."""
    name = "SyncedCollection._from_base.map"
    params = ("cls", "xs")

    def cases(self, cx):
        def mod(c):
            return [("g", "View"), ("g", "Cell"), ("g", "Alloc")] + [("g", n) for n in c.pre.g if n.startswith("LockDom:")]

        def post(c):
            xs = to_val(c.b["xs"])
            r = to_val(c.result)
            out = [
                ("lifted:not-a-node", z3.Not(smt.is_VRef(r))),
                ("C10:lock-tables-only-grow", locks_monotone(c)),
                ("frame:old-objects", below_alloc_unchanged(c, ("View", "Cell"))),
                ("alloc", c.post.g["Alloc"] >= c.pre.g["Alloc"]),
            ]
            if c.mode == "prove":
                # what the call sites use through the lifted value (meta 'lv' = plain(xs)) and through Inv.node:
                # element-wise, the result holds a leaf equal to the source item or a fresh family node whose view
                # is plain(item) - proved against the comprehension's explicit loop (contracts/lang_models.py)
                out.extend(c.pre.ghost["map_pointwise"](c, r, xs))
            return out
        return [Case("map", "normal", modifies=mod, post=post,
                     result=lambda c: Z(smt.fresh("fblist"), None,
                                        {"fresh_container": True, "lv": bs.plain(iv(c, c.pre, c.b["xs"])),
                                         "fb_src": to_val(c.b["xs"])}))]


class UpdateContract(Contract):
    """X._update(self, data=None, _validate=False) on a known node."""
    name = "_update"
    params = ("self", "data", "_validate")
    defaults = {"data": None, "_validate": False}

    def requires(self, cx):
        """`_validate=True` means "the caller has validated already": the data must then be admissible."""
        flag = cx.b.get("_validate")
        if isinstance(flag, Const) and not flag.v:
            return []
        ci = cx.pre.rec(cx.b["self"]).cls
        d = iv(cx, cx.pre, cx.b["data"])
        if isinstance(flag, Const):
            return [("C11:prevalidated-data-admissible", allowed(cx.eng, ci, d))]
        t = smt.F("truthy", Val, BoolS)(to_val(flag))
        return [("C11:prevalidated-data-admissible", z3.Implies(t, allowed(cx.eng, ci, d)))]

    def cases(self, cx):
        def info(c):
            return node(c, c.pre, c.b["self"])

        def dval(c):
            return to_val(c.b["data"])

        def kind_ok(c):
            return is_mapping(dval(c)) if info(c)["kind"] == "dict" else is_sequence(dval(c))

        def mod(c):
            return [("g", "View"), ("g", "Cell"), ("g", "Alloc")] + [("g", n) for n in c.pre.g if n.startswith("LockDom:")]

        def post_ok(c):
            i = info(c)
            pre, post = c.pre, c.post
            matches = pyeq(post.sel("View", i["n"]), bs.plain(iv(c, pre, c.b["data"])))
            if c.mode == "prove" and i["kind"] == "list" and post.ghost.get("i0") is not None:
                # the function ends with straight-line code: the arbitrary Skolem index of the loop invariant is
                # bound to the extensionality witness of the FINAL view here (late binding, see tree.list_update_witness)
                from contracts import tree as T
                matches = z3.Implies(smt.and_(T.list_update_witness(post.sel("View", i["n"]), dval(c), post.ghost["i0"])),
                                     matches)
            out = [("C02:matches", matches),
                   ("typed", smt.tyof(post.sel("View", i["n"])) == z3.IntVal(smt.tid_of("dict" if i["kind"] == "dict" else "list"))),
                   ("alloc", post.g["Alloc"] >= pre.g["Alloc"])]
            i1 = post.ghost.get("i1") if c.mode == "prove" else None
            if i1 is not None and i["kind"] == "list":
                from contracts import tree as T
                d0 = Val.addr(pre.rec(i["obj"]).fields["_data"].term)
                c0, c1 = pre.sel("Cell", d0), post.sel("Cell", d0)
                st_ = pre.copy()
                st_.loc = {"self": i["obj"]}
                J = smt.VInt(i1)
                out.append(("C02:identity", z3.Implies(
                    z3.And(i1 >= 0, i1 < bs.list_len(c0), i1 < bs.list_len(dval(c)),
                           T.keeps_identity(c.eng, st_, bs.list_get(c0, J), z3.BoolVal(True), bs.list_get(dval(c), J))),
                    bs.list_get(c1, J) == bs.list_get(c0, J))))
            k0 = post.ghost.get("k1") if c.mode == "prove" else None
            if k0 is not None and i["kind"] == "dict":
                from contracts import tree as T
                d0 = Val.addr(pre.rec(i["obj"]).fields["_data"].term)
                c0, c1 = pre.sel("Cell", d0), post.sel("Cell", d0)
                st_ = pre.copy()
                st_.loc = {"self": i["obj"]}
                out.append(("C02:identity", z3.Implies(
                    z3.And(bs.dict_has(dval(c), k0),
                           T.keeps_identity(c.eng, st_, bs.dict_get(c0, k0), bs.dict_has(c0, k0), bs.dict_get(dval(c), k0))),
                    z3.And(bs.dict_has(c1, k0), bs.dict_get(c1, k0) == bs.dict_get(c0, k0)))))
            out.extend(tree_consistency(c, i))
            out.append(("C10:lock-tables-only-grow", locks_monotone(c)))
            return out

        def post_raise(c):
            i = info(c)
            return [("alloc", c.post.g["Alloc"] >= c.pre.g["Alloc"]),
                    ("C10:lock-tables-only-grow", locks_monotone(c))] + tree_consistency(c, i)

        return [
            Case("none", "normal", guard=lambda c: dval(c) == VNone, result=lambda c: Const(None)),
            Case("updated", "normal", guard=lambda c: z3.And(dval(c) != VNone, kind_ok(c)), modifies=mod,
                 post=post_ok, result=lambda c: Const(None)),
            Case("wrong-kind", "raise", guard=lambda c: z3.And(dval(c) != VNone, z3.Not(kind_ok(c))),
                 exc=("ValueError",)),
            Case("rejected-entry", "raise",
                 guard=lambda c: z3.And(dval(c) != VNone, kind_ok(c),
                                        z3.Not(allowed(c.eng, info(c)["cls"], iv(c, c.pre, c.b["data"])))),
                 modifies=mod, post=post_raise, exc=EXC_VALIDATION),
        ]


def tree_consistency(c, i):
    """After a change inside the tree: views of the other known nodes of the tree follow [L-COMP]/[L-ATTACH];
    containers and views of objects outside the tree are untouched."""
    pre, post = c.pre, c.post
    out = []
    root = i["root"]
    n = i["obj"]
    if not i["is_root"]:
        # the receiver is a nested child: the root's view changes exactly at the child's position
        out.append(("L-COMP:root-view", post.sel("View", i["rn"]) ==
                    bs.put_in(pre.sel("View", i["rn"]), VRef(i["n"]), post.sel("View", i["n"]))))
    else:
        for m in tree_nodes(pre, root):
            if m.addr == n.addr:
                continue
            mn = z3.IntVal(m.addr)
            out.append(("L-ATTACH:child-view", post.sel("View", mn) == bs.sub_of(post.sel("View", i["rn"]), VRef(mn))))
    # built-in containers that belong to no collection tree: the class-level buffer statics, buffer entries, and
    # whatever the caller registered as such [A-TREE]
    for v in pre.statics.values():
        if isinstance(v, Z) and v.hint in ("dict", "list"):
            a_ = Val.addr(v.term)
            out.append(("frame:static-container", post.sel("Cell", a_) == pre.sel("Cell", a_)))
    for t in pre.ghost.get("frame_cells", []):
        out.append(("frame:foreign-container", post.sel("Cell", t) == pre.sel("Cell", t)))
    # objects outside this tree
    for a, rec in pre.objs.items():
        if not rec.tag.startswith("node"):
            continue
        r = rec.fields.get("_root")
        rr = r.addr if isinstance(r, ObjV) else a
        if rr == root.addr:
            continue
        an = z3.IntVal(a)
        dv = rec.fields.get("_data")
        same_cell = z3.BoolVal(False)
        if isinstance(dv, Z):
            # unless it shares its container with a node of this tree (shared-memory buffer)
            for m in tree_nodes(pre, root):
                md = pre.rec(m).fields.get("_data")
                if isinstance(md, Z):
                    same_cell = z3.Or(same_cell, Val.addr(md.term) == Val.addr(dv.term))
            out.append(("frame:other-tree-cell", z3.Implies(z3.Not(same_cell),
                        post.sel("Cell", Val.addr(dv.term)) == pre.sel("Cell", Val.addr(dv.term)))))
        out.append(("frame:other-tree-view", z3.Implies(z3.Not(same_cell), post.sel("View", an) == pre.sel("View", an))))
    return out


class ToBaseContract(Contract):
    """X._to_base(self): the plain view, as a fresh plain value; nothing changes."""
    name = "_to_base"
    params = ("self",)

    def cases(self, cx):
        def post(c):
            i = node(c, c.pre, c.b["self"])
            r = to_val(c.result)
            return [("C16:result-is-view", r == c.pre.sel("View", i["n"])),
                    ("C16:plain", z3.Not(smt.is_VRef(r)))]
        return [Case("plain", "normal", post=post,
                     result=lambda c: Z(smt.fresh("plainview"), None, {"fresh_container": True, "plain": True}))]


class LoadFromResourceContract(Contract):
    """X._load_from_resource(self): the resource content (None iff absent); no effect.  May fail (I/O error,
    unparsable content) - an environment fault."""
    name = "_load_from_resource"
    params = ("self",)

    def cases(self, cx):
        def post(c):
            i = node(c, c.pre, c.b["self"])
            cur = c.pre.sel("Res", i["rid"])
            r = to_val(c.result)
            return [("C02:content", r == z3.If(cur == VAbsent, VNone, cur))]

        def after(c):
            c.post.event("io-fault", "_load_from_resource")
        return [
            Case("read", "normal", post=post,
                 result=lambda c: Z(smt.fresh("loaded"), None, {"plain": True, "fresh_container": True})),
            Case("fault", "raise", exc=("OSError", "ValueError"),
                 post=lambda c: (after(c) if c.mode == "assume" else None, [])[1]),
        ]


class SaveToResourceContract(Contract):
    """X._save_to_resource(self) on a root: the resource holds exactly the plain view afterwards."""
    name = "_save_to_resource"
    params = ("self",)

    def cases(self, cx):
        def info(c):
            return node(c, c.pre, c.b["self"])

        def mod(c):
            return res_mod(c)

        def post(c):
            i = info(c)
            if c.mode == "assume":
                c.post.event("save", i["rid"], c.pre.sel("View", i["n"]))
            return [("C01:saved", c.post.sel("Res", i["rid"]) == c.pre.sel("View", i["n"])),
                    ("C17:write-counted", c.post.sel("Wr", i["rid"]) > c.pre.sel("Wr", i["rid"])),
                    ("frame:other-resources", other_resources_unchanged(c, i["rid"]))]

        def post_unser(c):
            if c.mode == "assume":
                c.post.event("io-fault", "unserialisable")
            return []

        def post_io(c):
            if c.mode == "assume":
                c.post.event("io-fault", "_save_to_resource")
            return [("frame:other-resources", other_resources_unchanged(c, info(c)["rid"]))]
        return [
            Case("saved", "normal", guard=lambda c: serialisable(c.pre.sel("View", info(c)["n"])), modifies=mod,
                 post=post, result=lambda c: Const(None)),
            Case("unserialisable", "raise", guard=lambda c: z3.Not(serialisable(c.pre.sel("View", info(c)["n"]))),
                 exc=EXC_VALIDATION, post=post_unser),
            Case("io-error", "raise", modifies=mod, exc=EXC_IO, post=post_io),
        ]


def buffered_info(c, st, root):
    """(Buf accessor, file) of the buffered root object `root` in state st."""
    from contracts.buffers import Buf
    cn = st.rec(root).cls.name
    return Buf(c.eng, st, cn), to_val(st.rec(root).fields["_filename"])


def other_files_kept(c, root):
    """Frame of a buffered load / save of `root` (file f): the buffer entry, the file and (shared strategy) the
    contents view of every OTHER file are untouched.  Proved at the Skolem file; assumed at the Skolem files and at
    the files of the other known roots of the class."""
    from contracts.buffers import Buf, entry_same, file_same, K_CONTENTS
    pre, post = c.pre, c.post
    cn = pre.rec(root).cls.name
    bp, bq = Buf(c.eng, pre, cn), Buf(c.eng, post, cn)
    f = to_val(pre.rec(root).fields["_filename"])
    files = list(pre.ghost.get("skolem_files", []))
    if c.mode == "assume":
        for a, rec in pre.objs.items():
            if rec.tag.startswith("node") and rec.cls.name == cn and not isinstance(rec.fields.get("_root"), ObjV) \
                    and a != root.addr:
                files.append(to_val(rec.fields["_filename"]))
    out = []
    for g in files:
        cl = [entry_same(bp, bq, g), z3.Implies(smt.known_name(g), file_same(pre, post, g))]
        if bp.strategy == "shared":
            ca = Val.addr(bp.field(g, K_CONTENTS))
            cl.append(z3.Implies(bp.has(g), post.sel("CView", ca) == pre.sel("CView", ca)))
        out.append(("frame:other-files-and-entries-untouched", z3.Implies(g != f, smt.and_(cl))))
    # the buffer tables of OTHER classes, foreign containers other than this file's entry, and the trees of other
    # roots (their containers, views and container views) are untouched
    for (cn2, an2), v in pre.statics.items():
        if cn2 != cn and isinstance(v, Z) and v.hint in ("dict", "list"):
            a_ = Val.addr(v.term)
            out.append(("frame:other-class-static-container", post.sel("Cell", a_) == pre.sel("Cell", a_)))
    for t in pre.ghost.get("frame_cells", []):
        out.append(("frame:foreign-container", z3.Implies(z3.And(t != bp.entry_addr(f), t != bq.entry_addr(f)),
                                                          post.sel("Cell", t) == pre.sel("Cell", t))))
    mine = {m.addr for m in tree_nodes(pre, root)}
    mycells = [Val.addr(pre.rec(ObjV(a)).fields["_data"].term) for a in mine if isinstance(pre.rec(ObjV(a)).fields.get("_data"), Z)]
    for a, rec in pre.objs.items():
        dv = rec.fields.get("_data")
        if not rec.tag.startswith("node") or a in mine or not isinstance(dv, Z):
            continue
        da = Val.addr(dv.term)
        shared_cell = smt.or_([da == mc for mc in mycells] + [da == Val.addr(bp.field(f, K_CONTENTS)),
                                                              da == Val.addr(bq.field(f, K_CONTENTS))])
        keep = [post.sel("Cell", da) == pre.sel("Cell", da), post.sel("View", z3.IntVal(a)) == pre.sel("View", z3.IntVal(a))]
        if "CView" in pre.g:
            keep.append(post.sel("CView", da) == pre.sel("CView", da))
        out.append(("frame:other-tree-untouched", z3.Implies(z3.Not(shared_cell), smt.and_(keep))))
    return out


def flushed_on_path(st):
    return any(e[0] in ("flush-buffer", "flush-buffer-error") for e in st.events)


def buf_mod(c, root):
    """What a buffered load / save may change: the tree (a load), the buffer statics, the object's container binding
    (shared-memory strategy) - and, if the capacity forces a flush, files."""
    cn = c.pre.rec(root).cls.name
    locs = [("g", n) for n in ("Cell", "View", "CView", "Alloc", "Res", "Wr", "FS", "Meta", "FsTick", "IoFault") if n in c.pre.g]
    locs += [("g", n) for n in c.pre.g if n.startswith("LockDom:")]
    locs += [("static", cn, "_CURRENT_BUFFER_SIZE"), ("static", cn, "_buffered_collections")]
    for a, rec in c.pre.objs.items():
        if rec.tag.startswith("node") and "_data" in rec.fields:
            locs.append(("field", a, "_data"))
    return locs


class LoadContract(Contract):
    """X._load(self): no-op while synchronisation is suspended; otherwise the in-memory tree of the root is
    brought in line with the source (the resource; the buffer while buffered)."""
    name = "_load"
    params = ("self",)

    def cases(self, cx):
        def info(c):
            return node(c, c.pre, c.b["self"])

        def cur(c):
            i = info(c)
            return c.pre.sel("Res", i["rid"])

        def unbuf(c):
            return z3.Not(buffered_term(c, c.pre, info(c)["root"]))

        def mod(c):
            return [("g", "View"), ("g", "Cell"), ("g", "Alloc")] + [("g", n) for n in c.pre.g if n.startswith("LockDom:")]

        def post_loaded(c):
            i = info(c)
            pre, post = c.pre, c.post
            out = [("C02:loaded", pyeq(post.sel("View", i["rn"]), cur(c))),
                   ("alloc", post.g["Alloc"] >= pre.g["Alloc"])]
            ri = node(c, pre, i["root"])
            out.extend(tree_consistency(c, ri))
            out.append(("C10:lock-tables-only-grow", locks_monotone(c)))
            if c.mode == "assume":
                post.event("load", i["root"].addr, cur(c), {m.addr: post.sel("View", z3.IntVal(m.addr))
                                                            for m in tree_nodes(pre, i["root"])})
            return out

        def post_absent(c):
            if c.mode == "assume":
                i = info(c)
                c.post.event("load", i["root"].addr, VAbsent,
                             {m.addr: c.post.sel("View", z3.IntVal(m.addr)) for m in tree_nodes(c.pre, i["root"])})
            return []

        def post_fault(c):
            i = info(c)
            if c.mode == "assume":
                c.post.event("io-fault", "_load")
            ri = node(c, c.pre, i["root"])
            return [("alloc", c.post.g["Alloc"] >= c.pre.g["Alloc"]),
                    ("C10:lock-tables-only-grow", locks_monotone(c))] + tree_consistency(c, ri)

        # ---- buffered mode (C05): the logical store L(f) - the buffered copy if there is one, else the file - takes
        # the place of the resource.  Clauses about L' and about files are not claimed on a path on which the capacity
        # forced a buffer-wide flush (call sites: such paths are not generated, [A-NOOVERFLOW]).
        def Lpre(c):
            b, f = buffered_info(c, c.pre, info(c)["root"])
            return b.logical(f)

        def post_bufloaded(c):
            i = info(c)
            pre, post = c.pre, c.post
            bp, f = buffered_info(c, pre, i["root"])
            bq, _ = buffered_info(c, post, i["root"])
            L = bp.logical(f)
            out = [("C05:view-is-the-logical-content", pyeq(post.sel("View", i["rn"]), L)),
                   ("alloc", post.g["Alloc"] >= pre.g["Alloc"]),
                   ("C10:lock-tables-only-grow", locks_monotone(c))]
            ri = node(c, pre, i["root"])
            out.extend(tc for tc in tree_consistency(c, ri) if not tc[0].startswith("frame:"))
            if c.mode == "assume" or not flushed_on_path(post):
                out += other_files_kept(c, i["root"])
                out += [("C05:logical-content-kept", pyeq(bq.logical(f), L)),
                        ("C05:logical-content-present", bq.logical(f) != VAbsent),
                        ("C05:deferred-no-file-effect", z3.And(post.g["FS"] == pre.g["FS"], post.g["Res"] == pre.g["Res"],
                                                               post.g["Wr"] == pre.g["Wr"])),
                        ("C15:entry-well-formed", z3.And(bq.has(f), bq.wellformed(f)))]
            if bp.strategy == "shared" and (c.mode == "assume" or not flushed_on_path(post)):
                from contracts.buffers import K_CONTENTS
                d1 = post.rec(i["root"]).fields["_data"].term
                out.append(("C05:object-shares-the-buffered-container", d1 == bq.field(f, K_CONTENTS)))
            if c.mode == "assume":
                c.eng.note("[A-NOOVERFLOW]")
                # the entry of f (possibly created by this load) is a container outside every collection tree
                post.ghost["frame_cells"] = list(post.ghost.get("frame_cells", [])) + [bq.entry_addr(f)]
                post.event("load", i["root"].addr, L, {m.addr: post.sel("View", z3.IntVal(m.addr))
                                                       for m in tree_nodes(pre, i["root"])})
            return out

        def nofile(c):
            if c.mode == "assume" or not flushed_on_path(c.post):
                return [("C05:deferred-no-file-effect", z3.And(c.post.g["FS"] == c.pre.g["FS"], c.post.g["Res"] == c.pre.g["Res"],
                                                               c.post.g["Wr"] == c.pre.g["Wr"]))]
            return []

        def post_bufabsent(c):
            if c.mode == "assume":
                i = info(c)
                c.post.event("load", i["root"].addr, VAbsent,
                             {m.addr: c.post.sel("View", z3.IntVal(m.addr)) for m in tree_nodes(c.pre, i["root"])})
            fr = other_files_kept(c, info(c)["root"]) if (c.mode == "assume" or not flushed_on_path(c.post)) else []
            return [("alloc", c.post.g["Alloc"] >= c.pre.g["Alloc"]), ("C10:lock-tables-only-grow", locks_monotone(c))] + nofile(c) + fr

        def post_buffault(c):
            if c.mode == "assume":
                c.post.event("io-fault", "_load")
            return [("alloc", c.post.g["Alloc"] >= c.pre.g["Alloc"]), ("C10:lock-tables-only-grow", locks_monotone(c))] + nofile(c)

        def bmod(c):
            return buf_mod(c, info(c)["root"])

        def buf(c):
            return z3.And(info(c)["susp"] == 0, z3.Not(unbuf(c)))

        is_buffered_class = "buffered" in cx.pre.rec(info(cx)["root"]).fields
        bcases = [
            Case("buf-loaded", "normal", guard=lambda c: z3.And(buf(c), Lpre(c) != VAbsent), modifies=bmod,
                 post=post_bufloaded, result=lambda c: Const(None)),
            Case("buf-absent", "normal", guard=lambda c: z3.And(buf(c), Lpre(c) == VAbsent), modifies=bmod,
                 post=post_bufabsent, result=lambda c: Const(None)),
            Case("buf-fault", "raise", guard=buf, modifies=bmod, post=post_buffault,
                 exc=("OSError", "ValueError", "TypeError", "BufferedError")),
        ] if is_buffered_class else []
        return [
            Case("suspended", "normal", guard=lambda c: info(c)["susp"] > 0, result=lambda c: Const(None)),
        ] + bcases + [
            Case("absent", "normal", guard=lambda c: z3.And(info(c)["susp"] == 0, unbuf(c), cur(c) == VAbsent),
                 post=post_absent, result=lambda c: Const(None)),
            Case("loaded", "normal", guard=lambda c: z3.And(info(c)["susp"] == 0, unbuf(c), cur(c) != VAbsent),
                 modifies=mod, post=post_loaded, result=lambda c: Const(None)),
            Case("fault", "raise", guard=lambda c: z3.And(info(c)["susp"] == 0, unbuf(c)), modifies=mod,
                 post=post_fault, exc=("OSError", "ValueError", "TypeError")),
        ]


class SaveContract(Contract):
    """X._save(self): no-op while suspended; otherwise the destination (the resource; the buffer while
    buffered) receives the root's plain view."""
    name = "_save"
    params = ("self",)

    def cases(self, cx):
        def info(c):
            return node(c, c.pre, c.b["self"])

        def unbuf(c):
            return z3.Not(buffered_term(c, c.pre, info(c)["root"]))

        def mod(c):
            return res_mod(c)

        def post(c):
            i = info(c)
            if c.mode == "assume":
                c.post.event("save", i["rid"], c.pre.sel("View", i["rn"]))
            return [("C01:saved", c.post.sel("Res", i["rid"]) == c.pre.sel("View", i["rn"])),
                    ("C17:write-counted", c.post.sel("Wr", i["rid"]) > c.pre.sel("Wr", i["rid"])),
                    ("frame:other-resources", other_resources_unchanged(c, i["rid"]))]

        def post_unser(c):
            if c.mode == "assume":
                c.post.event("io-fault", "unserialisable")
            return []

        def post_io(c):
            if c.mode == "assume":
                c.post.event("io-fault", "_save")
            return [("frame:other-resources", other_resources_unchanged(c, info(c)["rid"]))]

        def ser(c):
            return serialisable(c.pre.sel("View", info(c)["rn"]))

        def post_bufsaved(c):
            i = info(c)
            pre, post = c.pre, c.post
            bq, f = buffered_info(c, post, i["root"])
            view = pre.sel("View", i["rn"])
            out = [("alloc", post.g["Alloc"] >= pre.g["Alloc"]), ("C10:lock-tables-only-grow", locks_monotone(c))]
            if c.mode == "assume" or not flushed_on_path(post):
                out += other_files_kept(c, i["root"])
                out += [("C05:views-kept", post.g["View"] == pre.g["View"]),
                        ("C05:buffer-holds-the-view", z3.And(bq.has(f), pyeq(bq.logical(f), view))),
                        ("C05:deferred-no-file-effect", z3.And(post.g["FS"] == pre.g["FS"], post.g["Res"] == pre.g["Res"],
                                                               post.g["Wr"] == pre.g["Wr"])),
                        ("C15:entry-well-formed", bq.wellformed(f))]
            if c.mode == "assume":
                c.eng.note("[A-NOOVERFLOW]")
                post.event("save", i["rid"], view)
            return out

        def post_buffault(c):
            if c.mode == "assume":
                c.post.event("io-fault", "_save")
            return [("alloc", c.post.g["Alloc"] >= c.pre.g["Alloc"]), ("C10:lock-tables-only-grow", locks_monotone(c))]

        def bmod(c):
            return buf_mod(c, info(c)["root"])

        def buf(c):
            return z3.And(info(c)["susp"] == 0, z3.Not(unbuf(c)))

        is_buffered_class = "buffered" in cx.pre.rec(info(cx)["root"]).fields
        bcases = [
            Case("buf-saved", "normal", guard=buf, modifies=bmod, post=post_bufsaved,
                 result=lambda c: Const(None)),
            Case("buf-fault", "raise", guard=buf, modifies=bmod, post=post_buffault,
                 exc=("OSError", "ValueError", "TypeError", "BufferedError")),
        ] if is_buffered_class else []
        return [
            Case("suspended", "normal", guard=lambda c: info(c)["susp"] > 0, result=lambda c: Const(None)),
        ] + bcases + [
            Case("saved", "normal", guard=lambda c: z3.And(info(c)["susp"] == 0, unbuf(c), ser(c)), modifies=mod,
                 post=post, result=lambda c: Const(None)),
            Case("unserialisable", "raise", guard=lambda c: z3.And(info(c)["susp"] == 0, unbuf(c), z3.Not(ser(c))),
                 exc=EXC_VALIDATION, post=post_unser),
            Case("io-error", "raise", guard=lambda c: z3.And(info(c)["susp"] == 0, unbuf(c)), modifies=mod,
                 exc=EXC_IO, post=post_io),
        ]


def register(eng):
    P = eng.P
    v = ValidateContract()
    eng.contracts["SyncedCollection._validate"] = v
    fb = FromBaseContract()
    eng.contracts["SyncedCollection._from_base"] = fb
    eng.contracts["SyncedCollection._from_base.map"] = FromBaseMapContract()
    up = UpdateContract()
    tb = ToBaseContract()
    for k in ("SyncedDict", "SyncedList"):
        eng.contracts[k + "._update"] = up
        eng.contracts[k + "._to_base"] = tb
    from contracts import validators as V
    V.register(eng)
    from contracts import tree as T
    T.register(eng)
    from contracts import buffers as B
    B.register(eng)
    ld, sv = LoadContract(), SaveContract()
    lfr, str_ = LoadFromResourceContract(), SaveToResourceContract()
    for ci in P.classes.values():
        if ci.opaque or ci.module.stdlib:
            continue
        if "_load" in ci.methods:
            eng.contracts[ci.name + "._load"] = ld
        if "_save" in ci.methods:
            eng.contracts[ci.name + "._save"] = sv
        if "_load_from_resource" in ci.methods and not ci.methods["_load_from_resource"].abstract:
            eng.contracts[ci.name + "._load_from_resource"] = lfr
        if "_save_to_resource" in ci.methods and not ci.methods["_save_to_resource"].abstract:
            eng.contracts[ci.name + "._save_to_resource"] = str_
