"""Tree tier (DESIGN.md 3.2, 6 C02/C16): contracts for calls on CHILD nodes of unknown class (virtual dispatch),
loop invariants of _to_base / _update, comprehension rules of the constructors."""
import z3

from pyvc import smt
from pyvc.smt import Val, VNone, VRef, VInt, IntS, BoolS, F, pyeq
from pyvc.values import Z, Bv, Iv, Const, ObjV, TupleV, Raise, Unsupported, to_val, as_int
from pyvc.contracts import Contract, Case
from pyvc.loops import LoopSpec, item_key, item_val, key_index, seq_at, plain_len, mapping_key_facts
from pyvc import builtins_spec as bs
from contracts import core

diffkey = F("diffkey", Val, Val, Val)          # a key on which two dict values differ, if they differ  [SPEC-BUILTIN ext]
diffidx = F("diffidx", Val, Val, IntS)
T_DICT = z3.IntVal(smt.tid_of("dict"))
T_LIST = z3.IntVal(smt.tid_of("list"))


def dict_ext(a, b, k):
    """Extensionality of dict values, instantiated at the witness key k = diffkey(a, b)."""
    return z3.Implies(z3.And(smt.tyof(a) == T_DICT, smt.tyof(b) == T_DICT, bs.dict_has(a, k) == bs.dict_has(b, k),
                             z3.Implies(bs.dict_has(a, k), bs.dict_get(a, k) == bs.dict_get(b, k))), a == b)


def list_ext(a, b, i):
    return z3.Implies(z3.And(smt.tyof(a) == T_LIST, smt.tyof(b) == T_LIST, bs.list_len(a) == bs.list_len(b),
                             z3.Implies(z3.And(i >= 0, i < bs.list_len(a)),
                                        bs.list_get(a, VInt(i)) == bs.list_get(b, VInt(i)))), a == b)


def child_addr(v):
    return Val.addr(to_val(v))


class VirtualToBase(Contract):
    """child._to_base() for a child node of unknown class: its plain view; nothing changes."""
    name = "virtual:_to_base"
    params = ("self",)

    def cases(self, cx):
        def post(c):
            a = child_addr(c.b["self"])
            return [("C16:result-is-view", to_val(c.result) == c.pre.sel("View", a))]
        return [Case("plain", "normal", post=post,
                     result=lambda c: Z(smt.fresh("childview"), None, {"fresh_container": True, "plain": True}))]


class FromBaseMapLoop(LoopSpec):
    """The explicit loop of a `_from_base` comprehension (contracts/lang_models.py), in iteration order; `out` is the
    local result, xs the source.  With p elements done (dict form: visited set), pointwise at a Skolem index j0 / key k0:
        len(out) == p                                  (list form)
        visited  =>  out holds, at that position, a leaf equal to the source item or a FRESH node (above the Alloc of
                     the function entry, below the current one) of the receiver's family whose view is plain(item)
        nothing that existed at function entry changed; lock tables only grew."""
    def __init__(self, kind):
        self.kind = kind
        self.ordered = (kind == "list")

    def src(self, L, st):
        from pyvc.loops import param_name
        return to_val(st.loc[param_name(L.fi, 1)])

    def out(self, L, st):
        from pyvc.loops import returned_name
        return st.loc[returned_name(L.fi)].term

    def prepare(self, L, st):
        st.ghost["fn_entry"] = st.copy()
        st.ghost["map_loop"] = (self, L)
        recv = st.loc[L.fi.node.args.args[0].arg]
        L.sk["recv_cls"] = recv.ci if hasattr(recv, "ci") else st.rec(recv).cls
        if self.kind == "list":
            L.sk["j0"] = smt.fresh("j0", IntS)
        else:
            m = self.src(L, st)
            k0 = smt.fresh("k0")
            L.sk["k0"] = k0
            L.sk["idx_k0"] = key_index(m, k0)
            for f in mapping_key_facts(m, k0):
                st.assume(f)

    def havoc(self, L, st):
        havoc_heap(st)

    def item_ok(self, L, st, item, srcitem):
        E = st.ghost["fn_entry"]
        fd, fl = core.sc.family(L.eng, L.sk["recv_cls"])
        a = Val.addr(item)
        node = z3.And(smt.is_VRef(item), a >= E.g["Alloc"], a < st.g["Alloc"],
                      st.sel("View", a) == bs.plain(srcitem),
                      z3.If(core.is_mapping(srcitem), smt.ClsOf(a) == z3.IntVal(smt.tid_of(fd.name)),
                            smt.ClsOf(a) == z3.IntVal(smt.tid_of(fl.name))))
        leaf = item == srcitem
        return z3.If(z3.Or(core.is_mapping(srcitem), core.is_sequence(srcitem)), node, leaf)

    def invariant(self, L, st, vis):
        E = st.ghost["fn_entry"]
        xs, out = self.src(L, st), self.out(L, st)
        res = [("alloc-monotone", st.g["Alloc"] >= E.g["Alloc"])]
        x0 = E.ghost["skolem_addr"][0]
        res.append(("old-objects-untouched", z3.Implies(x0 < E.g["Alloc"], z3.And(st.sel("View", x0) == E.sel("View", x0),
                                                                                   st.sel("Cell", x0) == E.sel("Cell", x0)))))
        for nme in E.g:
            if nme.startswith("LockDom:"):
                for k in E.ghost.get("skolem_res", []):
                    res.append((f"lock-table-grows:{nme[8:]}", z3.Implies(z3.Select(E.g[nme], k), z3.Select(st.g[nme], k))))
        if self.kind == "list":
            j0 = L.sk["j0"]
            p = bs.list_len(out)
            res.append(("typed", smt.tyof(out) == T_LIST))
            res.append(("length-is-position", z3.And(p >= 0, z3.Not(vis(p)), z3.Implies(p > 0, vis(p - 1)))))
            res.append(("converted", z3.Implies(z3.And(j0 >= 0, vis(j0)),
                                                self.item_ok(L, st, bs.list_get(out, VInt(j0)), bs.list_get(xs, VInt(j0))))))
        else:
            k0, j = L.sk["k0"], L.sk["idx_k0"]
            done = z3.And(bs.dict_has(xs, k0), vis(j))
            res.append(("typed", smt.tyof(out) == T_DICT))
            res.append(("converted", z3.Implies(done, z3.And(bs.dict_has(out, k0),
                                                             self.item_ok(L, st, bs.dict_get(out, k0), bs.dict_get(xs, k0))))))
            res.append(("others-absent", z3.Implies(z3.Not(done), z3.Not(bs.dict_has(out, k0)))))
        return res

    def iteration_facts(self, L, st, i):
        if self.kind == "dict":
            m = self.src(L, st)
            return [z3.Implies(item_key(m, i) == L.sk["k0"], i == L.sk["idx_k0"])]
        return []


contains_witness = F("list_contains_witness", Val, Val, IntS)


def contains_axioms(V, x, idxs):
    """[SPEC-BUILTIN] list.__contains__: some element is the value or == to it.  (A1) at the given indices, (A2) at
    the witness index."""
    w = contains_witness(V, x)
    out = [z3.Implies(bs.list_contains(V, x), z3.And(w >= 0, w < bs.list_len(V), pyeq(bs.list_get(V, VInt(w)), x)))]
    for i in idxs:
        out.append(z3.Implies(z3.And(i >= 0, i < bs.list_len(V), pyeq(bs.list_get(V, VInt(i)), x)), bs.list_contains(V, x)))
    return out


class SequenceContainsLoop(LoopSpec):
    """collections.abc.Sequence.__contains__:  `for v in self: if v is value or v == value: return True`.
    With V the receiver's plain view and w = the witness index of list_contains(V, value):
        every visited position in range holds an element that is not == value   (pointwise at w)."""
    ordered = True

    def parts(self, L, st):
        from pyvc.loops import param_name
        me = st.loc[param_name(L.fi, 0)]
        x = to_val(st.loc[param_name(L.fi, 1)])
        V = st.sel("View", z3.IntVal(me.addr))
        return me, x, V

    def prepare(self, L, st):
        me, x, V = self.parts(L, st)
        c = L.seq.term
        L.sk["w"] = contains_witness(V, x)
        w = L.sk["w"]
        # [N-VIEW] container and view agree (length, and element-wise at the witness)
        st.assume(bs.list_len(c) == bs.list_len(V))
        st.assume(z3.Implies(z3.And(w >= 0, w < bs.list_len(c)), L.eng.intr.iv(st, bs.list_get(c, VInt(w))) == bs.list_get(V, VInt(w))))

    def invariant(self, L, st, vis):
        me, x, V = self.parts(L, st)
        w = L.sk["w"]
        return [("visited-elements-differ", z3.Implies(z3.And(w >= 0, w < bs.list_len(V), vis(w)),
                                                        z3.Not(pyeq(bs.list_get(V, VInt(w)), x))))]

    def iteration_facts(self, L, st, i):
        me, x, V = self.parts(L, st)
        c = L.seq.term
        return [L.eng.intr.iv(st, bs.list_get(c, VInt(i))) == bs.list_get(V, VInt(i))] + contains_axioms(V, x, [i])

    def at_exit(self, L, st):
        me, x, V = self.parts(L, st)
        return contains_axioms(V, x, [])


def count_axioms(V, x, idxs):
    """[SPEC-BUILTIN] list.count(x), by its definition over prefixes: no element among the first 0; the first i+1
    contain one more than the first i iff element i is / == x; count is the prefix count at len."""
    cp = bs.list_count_prefix
    out = [cp(V, x, z3.IntVal(0)) == 0, bs.list_count(V, x) == cp(V, x, bs.list_len(V))]
    for i in idxs:
        out.append(z3.Implies(z3.And(i >= 0, i < bs.list_len(V)),
                              cp(V, x, i + 1) == cp(V, x, i) + z3.If(pyeq(bs.list_get(V, VInt(i)), x), 1, 0)))
    return out


class SequenceCountLoop(LoopSpec):
    """collections.abc.Sequence.count, after the mechanical [L-GENSUM] desugaring of `sum(1 for v in self if v is value
    or v == value)`:   _acc = 0;  for v in self:  if v is value or v == value: _acc += 1;  return _acc
    With V the receiver's plain view (loaded once by __iter__):   _acc == list_count_prefix(V, value, position)."""
    ordered = True

    def parts(self, L, st):
        from pyvc.loops import param_name, returned_name
        me = st.loc[param_name(L.fi, 0)]
        x = to_val(st.loc[param_name(L.fi, 1)])
        V = st.sel("View", z3.IntVal(me.addr))
        acc = as_int(st.loc[returned_name(L.fi)])
        return me, x, V, acc

    def prepare(self, L, st):
        me, x, V, acc = self.parts(L, st)
        st.assume(bs.list_len(L.seq.term) == bs.list_len(V))      # [N-VIEW] container and view agree in length
        st.assume(*count_axioms(V, x, []))

    def invariant(self, L, st, vis):
        me, x, V, acc = self.parts(L, st)
        return [("accumulator-is-the-prefix-count", acc == bs.list_count_prefix(V, x, L.pos_now))]

    def iteration_facts(self, L, st, i):
        me, x, V, acc = self.parts(L, st)
        c = L.seq.term
        return [L.eng.intr.iv(st, bs.list_get(c, VInt(i))) == bs.list_get(V, VInt(i))] + count_axioms(V, x, [i])

    def at_exit(self, L, st):
        me, x, V, acc = self.parts(L, st)
        return count_axioms(V, x, [])


def index_axioms(V, x, idxs):
    """[SPEC-BUILTIN] list.index(x): the LEAST index of an element that is / == x; ValueError iff there is none."""
    r = bs.list_index(V, x)
    out = [z3.Implies(bs.list_contains(V, x), z3.And(r >= 0, r < bs.list_len(V), pyeq(bs.list_get(V, VInt(r)), x)))]
    for i in idxs:
        out.append(z3.Implies(z3.And(i >= 0, i < bs.list_len(V), pyeq(bs.list_get(V, VInt(i)), x)),
                              z3.And(bs.list_contains(V, x), r <= i)))
    return out


def index_in_axioms(V, x, lo, hi, idxs):
    """[SPEC-BUILTIN] list.index(x, start, stop) over normalised integer bounds lo, hi: the LEAST index i with
    lo <= i < hi and 0 <= i < len whose element is / == x; ValueError iff there is none."""
    LO, HI = VInt(lo), VInt(hi)
    r = bs.list_index_in(V, x, LO, HI)
    c = bs.list_contains_in(V, x, LO, HI)
    out = [z3.Implies(c, z3.And(r >= 0, r >= lo, r < hi, r < bs.list_len(V), pyeq(bs.list_get(V, VInt(r)), x)))]
    for i in idxs:
        out.append(z3.Implies(z3.And(i >= 0, i >= lo, i < hi, i < bs.list_len(V), pyeq(bs.list_get(V, VInt(i)), x)),
                              z3.And(c, r <= i)))
    return out


class SequenceIndexLoop(LoopSpec):
    """collections.abc.Sequence.index(value, start=0, stop=None):
           [negative start / stop are first made absolute with len(self) - one more load each]
           i = start;  while stop is None or i < stop:  try: v = self[i]  except IndexError: break
                                                        if v is value or v == value: return i;  i += 1
    Every `self[i]` RE-LOADS the collection.  With B the receiver's content in the resource as of the call (its own
    view at entry if the resource is absent), every reloaded view is == B (Python ==) as long as nobody writes, and
           i >= lo >= 0,  and no element of B at a position in [lo, i) is == value   (pointwise at the least-index witness)
    where lo / hi are the values of the locals `start` / `stop` at the loop head (hi absent when stop is None)."""
    def parts(self, L, st):
        from pyvc.loops import param_name
        E = st.ghost["fn_entry"]
        me = st.loc[param_name(L.fi, 0)]
        x = to_val(st.loc[param_name(L.fi, 1)])
        n = z3.IntVal(me.addr)
        info = core.node(type("C", (), {"eng": L.eng})(), E, me)
        R0 = E.sel("Res", info["rid"])
        pos = R0 if info["is_root"] else bs.sub_of(R0, VRef(n))
        B = z3.If(R0 == smt.VAbsent, E.sel("View", n), pos)
        return E, me, n, x, R0, B, info

    def bounds(self, L, st):
        """(lo, hi) - the loop-head values of the 3rd / 4th parameter (the loop does not assign them); hi is None
        for `stop is None`; (0, None) is the one-argument form."""
        from pyvc.loops import param_name
        E = st.ghost["fn_entry"]
        lo_v, hi_v = E.loc[param_name(L.fi, 2)], E.loc[param_name(L.fi, 3)]
        hi = None if (isinstance(hi_v, Const) and hi_v.v is None) else as_int(hi_v)
        lo = as_int(lo_v)
        default = hi is None and isinstance(lo_v, Const) and lo_v.v == 0
        return lo, hi, default

    def witness(self, L, st, B, x):
        lo, hi, default = self.bounds(L, st)
        if default:
            return bs.list_index(B, x)
        return bs.list_index_in(B, x, VInt(lo), VInt(self.hi_term(hi, B)))

    @staticmethod
    def hi_term(hi, B):
        """stop=None: the search runs to the end of the list."""
        return bs.list_len(B) if hi is None else hi

    def prepare(self, L, st):
        from pyvc.loops import param_name
        for k in (2, 3):
            nm = param_name(L.fi, k)
            if nm in assigned_in_loop(L.node):
                raise Unsupported("Sequence.index: the loop assigns " + nm)
        st.ghost["fn_entry"] = st.copy()

    def havoc(self, L, st):
        havoc_heap(st)

    def counter(self, L, st):
        import ast as _ast
        # the loop counter: the local the function returns
        from pyvc.loops import returned_name
        return as_int(st.loc[returned_name(L.fi)])

    def invariant(self, L, st, vis):
        E, me, n, x, R0, B, info = self.parts(L, st)
        i = self.counter(L, st)
        lo, hi, default = self.bounds(L, st)
        j0 = self.witness(L, st, B, x)
        out = [("counter-nonnegative", i >= 0), ("counter-from-start", i >= lo),
               ("absent-resource-leaves-the-view", z3.Implies(R0 == smt.VAbsent, st.sel("View", n) == E.sel("View", n))),
               ("earlier-elements-differ", z3.Implies(z3.And(j0 >= 0, j0 >= lo, j0 < i, j0 < bs.list_len(B)),
                                                      z3.Not(pyeq(bs.list_get(B, VInt(j0)), x)))),
               # once an element has been fetched the in-memory view is the backend content as of the call
               ("view-current-after-the-first-fetch", z3.Or(i == lo, pyeq(st.sel("View", n), B)))]
        # a read loop: every iteration reloads the whole tree, so nothing ties the views to their entry values;
        # what stays is what no load touches
        out.append(("alloc-monotone", st.g["Alloc"] >= E.g["Alloc"]))
        for (cn, an_), v in E.statics.items():
            if isinstance(v, Z) and v.hint in ("dict", "list"):
                a_ = Val.addr(v.term)
                out.append((f"static-container-kept:{cn}.{an_}", st.sel("Cell", a_) == E.sel("Cell", a_)))
        for t in E.ghost.get("frame_cells", []):
            out.append(("foreign-container-kept", st.sel("Cell", t) == E.sel("Cell", t)))
        keys = list(E.ghost.get("skolem_res", []))
        for a, orec in E.objs.items():
            if orec.tag.startswith("node") and "_filename" in orec.fields:
                keys.append(to_val(orec.fields["_filename"]))
        seen = set()
        for nme in E.g:
            if nme.startswith("LockDom:"):
                for k in keys:
                    if (nme, k.get_id()) not in seen:
                        seen.add((nme, k.get_id()))
                        out.append((f"lock-table-grows:{nme[8:]}", z3.Implies(z3.Select(E.g[nme], k), z3.Select(st.g[nme], k))))
        return out

    def unfold_B(self, L, st):
        """B is the receiver's content in the resource (or its entry view): definitional equations, so that the
        read terms over both forms occur (the congruence instances are generated per occurring term)."""
        E, me, n, x, R0, B, info = self.parts(L, st)
        i = self.counter(L, st)
        lo, hi, default = self.bounds(L, st)
        pos = R0 if info["is_root"] else bs.sub_of(R0, VRef(n))
        out = []
        for t in (pos, E.sel("View", n)):
            eqs = [bs.list_len(B) == bs.list_len(t), bs.list_get(B, VInt(i)) == bs.list_get(t, VInt(i))]
            if default:
                eqs += [bs.list_index(B, x) == bs.list_index(t, x), bs.list_contains(B, x) == bs.list_contains(t, x)]
            else:
                LO, HI = VInt(lo), VInt(self.hi_term(hi, B))
                eqs += [bs.list_index_in(B, x, LO, HI) == bs.list_index_in(t, x, LO, HI),
                        bs.list_contains_in(B, x, LO, HI) == bs.list_contains_in(t, x, LO, HI)]
            out.append(z3.Implies(B == t, z3.And(*eqs)))
        out.append(z3.If(R0 == smt.VAbsent, B == E.sel("View", n), B == pos))
        return out

    def spec_axioms(self, L, st, B, x, idxs, all_idxs=True):
        lo, hi, default = self.bounds(L, st)
        if default:
            return index_axioms(B, x, idxs) + contains_axioms(B, x, idxs if all_idxs else [])
        return index_in_axioms(B, x, lo, self.hi_term(hi, B), idxs)

    def iteration_facts(self, L, st, i_unused):
        E, me, n, x, R0, B, info = self.parts(L, st)
        i = self.counter(L, st)
        return self.spec_axioms(L, st, B, x, [i]) + self.unfold_B(L, st)

    def at_exit(self, L, st):
        E, me, n, x, R0, B, info = self.parts(L, st)
        i = self.counter(L, st)
        return self.spec_axioms(L, st, B, x, [i], all_idxs=False) + self.unfold_B(L, st)


def assigned_in_loop(node):
    import ast as _ast
    return {t.id for t in _ast.walk(node) if isinstance(t, _ast.Name) and isinstance(t.ctx, _ast.Store)}


def register(eng):
    eng.loop_specs[("stdlib:Sequence.__contains__", 1)] = SequenceContainsLoop()
    eng.loop_specs[("stdlib:Sequence.index", 1)] = SequenceIndexLoop()
    eng.loop_specs[("stdlib:Sequence.count", 1)] = SequenceCountLoop()
    eng.loop_specs[("_comp_list", 1)] = FromBaseMapLoop("list")
    eng.loop_specs[("_comp_dict", 1)] = FromBaseMapLoop("dict")
    eng.virtual["_to_base"] = VirtualToBase()
    eng.loop_specs[("SyncedDict._to_base", 1)] = ToBaseDictLoop()
    eng.loop_specs[("SyncedList._to_base", 1)] = ToBaseListLoop()
    register_update(eng)


class ToBaseDictLoop(LoopSpec):
    """for key, value in self._data.items(): converted[key] = view of value
    Pointwise at a Skolem key k0 (with j0 its position in the enumeration of the container):
        visited(j0) and k0 in data   =>  k0 in converted and converted[k0] == view[k0]
        otherwise                    =>  k0 not in converted"""
    def prepare(self, L, st):
        c = L.seq.term
        k0 = smt.fresh("k0")
        L.sk["k0"] = k0
        L.sk["idx_k0"] = key_index(c, k0)
        for f in mapping_key_facts(c, k0):
            st.assume(f)
        owner = L.seq.source["cell_owner"]
        L.sk["view"] = st.sel("View", z3.IntVal(owner.addr))
        # [N-VIEW] pointwise relation between the container and the node's plain view, at k0
        view = L.sk["view"]
        st.assume(bs.dict_has(c, k0) == bs.dict_has(view, k0))
        st.assume(z3.Implies(bs.dict_has(c, k0), L.eng.intr.iv(st, bs.dict_get(c, k0)) == bs.dict_get(view, k0)))

    def conv(self, st):
        from pyvc.loops import returned_name
        return to_val(st.loc[returned_name(st.frames[-1])])

    def invariant(self, L, st, vis):
        c, k0, j0, view = L.seq.term, L.sk["k0"], L.sk["idx_k0"], L.sk["view"]
        conv = self.conv(st)
        done = z3.And(bs.dict_has(c, k0), vis(j0))
        return [("typed", smt.tyof(conv) == T_DICT),
                ("visited-copied", z3.Implies(done, z3.And(bs.dict_has(conv, k0), bs.dict_get(conv, k0) == bs.dict_get(view, k0)))),
                ("unvisited-absent", z3.Implies(z3.Not(done), z3.Not(bs.dict_has(conv, k0))))]

    def iteration_facts(self, L, st, i):
        c, k0 = L.seq.term, L.sk["k0"]
        # keys of the enumeration are pairwise distinct: the current key is k0 only at k0's own position
        return [z3.Implies(item_key(c, i) == k0, i == L.sk["idx_k0"])]

    def at_exit(self, L, st):
        conv, view, k0 = self.conv(st), L.sk["view"], L.sk["k0"]
        # the pointwise invariant holds for EVERY key; use it at the key on which conv and the view would differ
        return [k0 == diffkey(conv, view), dict_ext(conv, view, k0), smt.tyof(view) == T_DICT]


class ToBaseListLoop(LoopSpec):
    """for value in self._data: converted.append(view of value)          (in index order)
    With p the number of elements visited:  len(converted) == p, and pointwise at a Skolem index i0
        0 <= i0 < p  =>  converted[i0] == view[i0]"""
    ordered = True

    def prepare(self, L, st):
        c = L.seq.term
        i0 = smt.fresh("i0", IntS)
        L.sk["i0"] = i0
        owner = L.seq.source["cell_owner"]
        view = st.sel("View", z3.IntVal(owner.addr))
        L.sk["view"] = view
        # [N-VIEW] pointwise relation between the container and the node's plain view
        st.assume(bs.list_len(c) == bs.list_len(view))
        st.assume(z3.Implies(z3.And(i0 >= 0, i0 < bs.list_len(c)),
                             L.eng.intr.iv(st, bs.list_get(c, VInt(i0))) == bs.list_get(view, VInt(i0))))

    def conv(self, st):
        from pyvc.loops import returned_name
        return to_val(st.loc[returned_name(st.frames[-1])])

    def invariant(self, L, st, vis):
        i0, view = L.sk["i0"], L.sk["view"]
        conv = self.conv(st)
        pos = L.sk.get("$pos_now")
        out = [("typed", smt.tyof(conv) == T_LIST)]
        return out + self.positional(L, st, vis, conv, i0, view)

    def positional(self, L, st, vis, conv, i0, view):
        # the number of visited elements is the length of the result; vis(j) <=> j < p
        p = bs.list_len(conv)
        return [("length-is-position", z3.And(vis(p - 1) if False else z3.BoolVal(True),
                                              z3.Not(vis(p)), z3.Implies(p > 0, vis(p - 1)), p >= 0)),
                ("prefix-copied", z3.Implies(z3.And(i0 >= 0, vis(i0)),
                                             bs.list_get(conv, VInt(i0)) == bs.list_get(view, VInt(i0))))]

    def iteration_facts(self, L, st, i):
        c, view = L.seq.term, L.sk["view"]
        return [L.eng.intr.iv(st, bs.list_get(c, VInt(i))) == bs.list_get(view, VInt(i))]

    def at_exit(self, L, st):
        conv, view, i0 = self.conv(st), L.sk["view"], L.sk["i0"]
        return [i0 == diffidx(conv, view), list_ext(conv, view, i0), smt.tyof(view) == T_LIST]


# =================================================================================================
# _update (dict)
diffkey_eq = F("diffkey_eq", Val, Val, Val)


def pyeq_dict_ext(a, b, k):
    """Python == of a dict with a mapping holds if they agree on every key: instantiated at the witness key."""
    return z3.Implies(z3.And(smt.tyof(a) == T_DICT, core.is_mapping(b), bs.dict_has(a, k) == bs.dict_has(b, k),
                             z3.Implies(bs.dict_has(a, k), pyeq(bs.dict_get(a, k), bs.dict_get(b, k)))), pyeq(a, b))


def self_cell(st):
    me = st.loc["self"]
    d = st.rec(me).fields["_data"]
    return st.sel("Cell", Val.addr(d.term))


def self_view(st):
    return st.sel("View", z3.IntVal(st.loc["self"].addr))


def item_wf(st, item):
    return z3.Implies(smt.is_VRef(item), z3.And(smt.isinstance_(item, "SyncedCollection"), Val.addr(item) > 1000,
                                               Val.addr(item) < st.g["Alloc"]))


def child_class_allowed(eng, st, item, value):
    """The data is admissible for the class of the child node `item` (the dict / list class of the family)."""
    me = st.loc["self"] if "self" in st.loc else None
    ci = st.rec(me).cls
    fd, fl = core.sc.family(eng, ci)
    a = Val.addr(item)
    return z3.If(smt.inst(smt.ClsOf(a), z3.IntVal(smt.tid_of("Mapping"))), core.allowed(eng, fd, value),
                 core.allowed(eng, fl, value))


def keeps_identity(eng, st, old_item, had, value):
    """C02: the position held a nested collection and the new value is a container of the same kind (and is
    admissible for it): the SAME child object must stay in place."""
    a = Val.addr(old_item)
    same_kind = z3.If(smt.inst(smt.ClsOf(a), z3.IntVal(smt.tid_of("Mapping"))), core.is_mapping(value),
                      core.is_sequence(value))
    return z3.And(had, smt.is_VRef(old_item), value != VNone, same_kind, child_class_allowed(eng, st, old_item, value))


def havoc_heap(st):
    for n in list(st.g):
        if n in ("Cell", "View", "Alloc") or n.startswith("LockDom:"):
            st.g[n] = smt.fresh(n + "~", st.g[n].sort())


def surroundings(L, st, fn_entry):
    """What a loop must keep knowing about everything it does not touch: the root's view follows the receiver's
    ([L-COMP], nested receivers), other trees are untouched, allocation only grows."""
    me = st.loc["self"]
    rec = st.rec(me)
    out = [("alloc-monotone", st.g["Alloc"] >= fn_entry.g["Alloc"])]
    n = z3.IntVal(me.addr)
    r = rec.fields.get("_root")
    if isinstance(r, ObjV):
        rn = z3.IntVal(r.addr)
        out.append(("root-view-follows", st.sel("View", rn) == bs.put_in(fn_entry.sel("View", rn), VRef(n), st.sel("View", n))))
    root = r if isinstance(r, ObjV) else me
    for a, orec in fn_entry.objs.items():
        if not orec.tag.startswith("node") or a == me.addr or a == root.addr:
            continue
        rr = orec.fields.get("_root")
        if isinstance(rr, ObjV) and rr.addr == root.addr:
            continue
        an = z3.IntVal(a)
        out.append((f"other-tree-view:{orec.tag}", st.sel("View", an) == fn_entry.sel("View", an)))
        dv = orec.fields.get("_data")
        if isinstance(dv, Z):
            da = Val.addr(dv.term)
            out.append((f"other-tree-cell:{orec.tag}", st.sel("Cell", da) == fn_entry.sel("Cell", da)))
    # built-in containers that belong to no collection tree (class-level buffer statics, registered foreign cells)
    for (cn, an_), v in fn_entry.statics.items():
        if isinstance(v, Z) and v.hint in ("dict", "list"):
            a_ = Val.addr(v.term)
            out.append((f"static-container-kept:{cn}.{an_}", st.sel("Cell", a_) == fn_entry.sel("Cell", a_)))
    for t in fn_entry.ghost.get("frame_cells", []):
        out.append(("foreign-container-kept", st.sel("Cell", t) == fn_entry.sel("Cell", t)))
    keys = list(fn_entry.ghost.get("skolem_res", []))
    for a, orec in fn_entry.objs.items():
        # (the lock ids of the known nodes: code after the loop may take their locks)
        if orec.tag.startswith("node") and "_filename" in orec.fields:
            keys.append(to_val(orec.fields["_filename"]))
        if orec.tag.startswith("node") and "_lock_id" in orec.fields:
            try:
                keys.append(to_val(orec.fields["_lock_id"]))
            except Unsupported:
                pass
    seen = set()
    for nme in fn_entry.g:
        if nme.startswith("LockDom:"):
            for k in keys:
                if (nme, k.get_id()) in seen:
                    continue
                seen.add((nme, k.get_id()))
                out.append((f"lock-table-grows:{nme[8:]}", z3.Implies(z3.Select(fn_entry.g[nme], k), z3.Select(st.g[nme], k))))
    return out


class UpdateDictLoop1(LoopSpec):
    """SyncedDict._update, `for key, new_value in data.items()`.   Pointwise at a Skolem key k0, with
    D = data, c / V = the receiver's container / plain view now, c0 / V0 at function entry:
       k0 in D and visited   =>  k0 in c  and  V[k0] == D[k0]            (Python ==)
       otherwise             =>  the slot of k0 is exactly as at entry
       and c and V agree at k0 ([N-VIEW] consistency), references in c are well-formed nodes."""
    def data(self, st):
        from pyvc.loops import param_name
        return to_val(st.loc[param_name(st.frames[-1], 1)])

    def prepare(self, L, st):
        D = self.data(st)
        k0 = smt.fresh("k0")      # the key the final content comparison will be made at (fixed at the last loop's exit)
        k1 = smt.fresh("k1")      # a key that stays arbitrary (identity clause)
        st.ghost["k0"], st.ghost["k1"] = k0, k1
        st.ghost["fn_entry"] = st.copy()
        L.sk["k0"], L.sk["k1"] = k0, k1
        L.sk["idx_k0"] = key_index(D, k0)
        L.sk["idx_k1"] = key_index(D, k1)
        c0, V0 = self_cell(st), self_view(st)
        for k in (k0, k1):
            for f in mapping_key_facts(D, k):
                st.assume(f)
            # Inv at entry, pointwise: container and view agree, references are nodes of this tree
            it = bs.dict_get(c0, k)
            st.assume(bs.dict_has(c0, k) == bs.dict_has(V0, k),
                      z3.Implies(bs.dict_has(c0, k), L.eng.intr.iv(st, it) == bs.dict_get(V0, k)),
                      item_wf(st, it), smt.tyof(V0) == T_DICT)

    def havoc(self, L, st):
        havoc_heap(st)

    def invariant(self, L, st, vis, k=None):
        if k is None:
            a = self.invariant(L, st, vis, L.sk["k0"])
            b = [(lab + "@k1", cl) for (lab, cl) in self.invariant(L, st, vis, L.sk["k1"]) if not lab.startswith(
                ("alloc", "root-view", "other-tree", "lock-table", "typed"))]
            return a + b
        D = self.data(st)
        j = key_index(D, k)
        E = st.ghost["fn_entry"]
        c, V, c0, V0 = self_cell(st), self_view(st), self_cell(E), self_view(E)
        it = bs.dict_get(c, k)
        done = z3.And(bs.dict_has(D, k), vis(j))
        out = [
            ("view-agrees:has", bs.dict_has(c, k) == bs.dict_has(V, k)),
            ("view-agrees:get", z3.Implies(bs.dict_has(c, k), L.eng.intr.iv(st, it) == bs.dict_get(V, k))),
            ("items-are-nodes", item_wf(st, it)),
            ("visited-matches", z3.Implies(done, z3.And(bs.dict_has(c, k), pyeq(bs.dict_get(V, k), bs.plain(bs.dict_get(D, k)))))),
            ("unvisited-untouched", z3.Implies(z3.Not(done), z3.And(
                bs.dict_has(c, k) == bs.dict_has(c0, k),
                z3.Implies(bs.dict_has(c, k), z3.And(it == bs.dict_get(c0, k), bs.dict_get(V, k) == bs.dict_get(V0, k)))))),
            ("typed", smt.tyof(V) == T_DICT),
            ("identity-kept", z3.Implies(z3.And(done, keeps_identity(L.eng, st, bs.dict_get(c0, k), bs.dict_has(c0, k),
                                                                     bs.dict_get(D, k))), it == bs.dict_get(c0, k))),
        ]
        return out + surroundings(L, st, E)

    def iteration_facts(self, L, st, i):
        D, k0 = self.data(st), L.sk["k0"]
        c = self_cell(st)
        ki = item_key(D, i)
        it0, iti = bs.dict_get(c, k0), bs.dict_get(c, ki)
        st.ghost["item_terms"] = [it0]
        st.ghost["skolem_addr"] = list(st.ghost.get("skolem_addr", [])) + [Val.addr(it0)]
        new_i = item_val(D, i)
        k1 = L.sk["k1"]
        it1 = bs.dict_get(c, k1)
        st.ghost["item_terms"] = [it0, it1]
        st.ghost["skolem_addr"] = list(st.ghost.get("skolem_addr", [])) + [Val.addr(it1)]
        extra = [z3.Implies(ki == k1, i == L.sk["idx_k1"]),
                 z3.Implies(z3.And(ki != k1, smt.is_VRef(it1), smt.is_VRef(iti)), Val.addr(it1) != Val.addr(iti)),
                 z3.Implies(z3.And(k0 != k1, smt.is_VRef(it1), smt.is_VRef(it0)), Val.addr(it1) != Val.addr(it0))]
        return extra + [z3.Implies(ki == k0, i == L.sk["idx_k0"]),
                # [A-TREE] distinct slots hold distinct nodes
                z3.Implies(z3.And(ki != k0, smt.is_VRef(it0), smt.is_VRef(iti)), Val.addr(it0) != Val.addr(iti)),
                item_wf(st, iti),
                # [N-VIEW] plain views hold no tuples / bytes: a value that compares equal to one is unchanged by the
                # tuple/bytes -> list normalisation, as far as Python == is concerned
                z3.Implies(pyeq(new_i, L.eng.intr.iv(st, iti)), pyeq(bs.plain(new_i), L.eng.intr.iv(st, iti)))] \
            + self.validator_facts(L, st, D, i, ki, new_i)

    def validator_facts(self, L, st, D, i, ki, new_i):
        """Unfolding of the spec predicates at the current item (and at k0's item), the one-item literal
        {key: new_value} the code validates, and the lemma json_ok => strkeys at the item."""
        from contracts import validators as V
        me = st.loc["self"]
        names = L.eng.R["classes"][st.rec(me).cls.name]["all_validators"]
        fd, fl = core.sc.family(L.eng, st.rec(me).cls)
        names = set(names) | set(L.eng.R["classes"][fd.name]["all_validators"]) | set(L.eng.R["classes"][fl.name]["all_validators"])
        preds = set()
        for n in names:
            preds.update(V.VALIDATOR_PREDS[n])
        out = []
        j0 = L.sk["idx_k0"]
        for pn in sorted(preds):
            out.extend(V.unfold(pn, D, [i, j0, L.sk["idx_k1"]]))
        out.extend(V.family_lemmas(item_val(D, L.sk["idx_k1"])))
        lit = bs.dict_set(bs.dict_empty, ki, new_i)
        out.extend(V.singleton_axioms(lit, ki, new_i))
        out.extend(V.family_lemmas(new_i))
        out.extend(V.family_lemmas(item_val(D, j0)))
        out.append(V.type_discipline(D))
        return out


class UpdateDictLoop2(LoopSpec):
    """SyncedDict._update, `for key in to_remove: del self._data[key]` with
    to_remove = [key for key in self._data if key not in data]  (T below; cT / VT = container / view when T was built):
       k0 in T and visited  =>  k0 not in c
       otherwise            =>  the slot of k0 is exactly as when T was built."""
    def prepare(self, L, st):
        k0, k1 = st.ghost["k0"], st.ghost["k1"]
        L.sk["k0"], L.sk["k1"] = k0, k1
        flt = L.seq.source["filter"]
        T = L.seq.term
        L.sk["idx_T"] = F("filter_index", Val, Val, IntS)(T, k0)
        L.sk["idx_T1"] = F("filter_index", Val, Val, IntS)(T, k1)
        for k in (k0, k1):
            for f in flt["key_facts"](k):
                st.assume(f)

    def havoc(self, L, st):
        havoc_heap(st)

    def invariant(self, L, st, vis, k=None, j=None):
        if k is None:
            a = self.invariant(L, st, vis, L.sk["k0"])
            b = [(lab + "@k1", cl) for (lab, cl) in self.invariant(L, st, vis, L.sk["k1"]) if not lab.startswith(
                ("alloc", "root-view", "other-tree", "lock-table", "typed"))]
            return a + b
        flt = L.seq.source["filter"]
        T = L.seq.term
        j = j if j is not None else F("filter_index", Val, Val, IntS)(T, k)
        E = st.ghost["fn_entry"]
        B = L.entry
        c, V, cT, VT = self_cell(st), self_view(st), self_cell(B), self_view(B)
        it = bs.dict_get(c, k)
        done = z3.And(flt["member"](k), vis(j))
        out = [
            ("view-agrees:has", bs.dict_has(c, k) == bs.dict_has(V, k)),
            ("view-agrees:get", z3.Implies(bs.dict_has(c, k), L.eng.intr.iv(st, it) == bs.dict_get(V, k))),
            ("removed", z3.Implies(done, z3.Not(bs.dict_has(c, k)))),
            ("others-untouched", z3.Implies(z3.Not(done), z3.And(
                bs.dict_has(c, k) == bs.dict_has(cT, k),
                z3.Implies(bs.dict_has(c, k), z3.And(it == bs.dict_get(cT, k), bs.dict_get(V, k) == bs.dict_get(VT, k)))))),
            ("typed", smt.tyof(V) == T_DICT),
        ]
        return out + surroundings(L, st, E)

    def invariant_instances(self, L, st, vis, i):
        # at the element of the current iteration (it is still in the container: del cannot fail)
        ei = seq_at(L.seq.term, i)
        return [cl for (_, cl) in self.invariant(L, st, vis, k=ei, j=i)]

    def iteration_facts(self, L, st, i):
        k0 = L.sk["k0"]
        ei = seq_at(L.seq.term, i)
        return [z3.Implies(ei == k0, i == L.sk["idx_T"]), z3.Implies(ei == L.sk["k1"], i == L.sk["idx_T1"])]

    def at_exit(self, L, st):
        V, k0 = self_view(st), L.sk["k0"]
        from pyvc.loops import param_name
        D = to_val(st.loc[param_name(st.frames[-1], 1)])
        PD = bs.plain(D)
        # plain() acts item-wise on mappings [N-VIEW]
        return [k0 == diffkey_eq(V, PD), pyeq_dict_ext(V, PD, k0), core.is_mapping(PD),
                bs.dict_has(PD, k0) == bs.dict_has(D, k0), bs.dict_get(PD, k0) == bs.plain(bs.dict_get(D, k0))]


# =================================================================================================
# _update (list)
diffidx_eq = F("diffidx_eq", Val, Val, IntS)


def pyeq_list_ext(a, b, i):
    """Python == of two list values holds if they have equal length and == elements: at the witness index."""
    G = lambda t: bs.list_get(t, VInt(i))
    return z3.Implies(z3.And(smt.tyof(a) == T_LIST, smt.tyof(b) == T_LIST, bs.list_len(a) == bs.list_len(b),
                             z3.Implies(z3.And(i >= 0, i < bs.list_len(a)), pyeq(G(a), G(b)))), pyeq(a, b))


def list_update_witness(Vpost, D, i0):
    """Binding of the (arbitrary) Skolem index of SyncedList._update to the index at which the final view and the
    data would differ, the extensionality lemma at it, and plain() unfolded one level on the sequence D [N-VIEW]."""
    PD = bs.plain(D)
    Di = bs.list_get(D, VInt(i0))
    return [i0 == diffidx_eq(Vpost, PD), pyeq_list_ext(Vpost, PD, i0),
            z3.Implies(core.is_sequence(D), z3.And(smt.tyof(PD) == T_LIST, bs.list_len(PD) == bs.list_len(D),
                                                   bs.list_get(PD, VInt(i0)) == bs.plain(Di)))]


class UpdateListLoop(LoopSpec):
    """SyncedList._update, `for i in range(min(len(self), len(data)))`  (in index order; p = number of positions
    done).  With D = data, c / V the receiver's container / plain view now, c0 / V0 at function entry, pointwise
    at Skolem indices j in {i0, i1}:
        len(c) == len(c0) == len(V), V is a list
        0 <= j < len(c)  =>  c[j] and V[j] agree [N-VIEW], c[j] is a scalar or a node of this tree
        0 <= j < p       =>  V[j] == plain(D[j])                       (Python ==)
        p <= j < len(c)  =>  c[j], V[j] exactly as at entry
        0 <= j < p and D[j] is a container of the kind of the nested collection c0[j]  =>  c[j] is c0[j]"""
    ordered = True

    def data(self, st):
        from pyvc.loops import param_name
        return to_val(st.loc[param_name(st.frames[-1], 1)])

    def prepare(self, L, st):
        i0 = smt.fresh("i0", IntS)
        i1 = smt.fresh("i1", IntS)
        st.ghost["i0"], st.ghost["i1"] = i0, i1
        st.ghost["fn_entry"] = st.copy()
        L.sk["i0"], L.sk["i1"] = i0, i1
        c0, V0 = self_cell(st), self_view(st)
        st.assume(bs.list_len(c0) == bs.list_len(V0), smt.tyof(V0) == T_LIST, bs.list_len(c0) >= 0)
        for j in (i0, i1):
            it = bs.list_get(c0, VInt(j))
            st.assume(z3.Implies(z3.And(j >= 0, j < bs.list_len(c0)),
                                 z3.And(L.eng.intr.iv(st, it) == bs.list_get(V0, VInt(j)), item_wf(st, it))))

    def havoc(self, L, st):
        havoc_heap(st)

    def at(self, L, st, vis, j, full=True):
        D = self.data(st)
        E = st.ghost["fn_entry"]
        c, V, c0, V0 = self_cell(st), self_view(st), self_cell(E), self_view(E)
        J = VInt(j)
        it = bs.list_get(c, J)
        inr = z3.And(j >= 0, j < bs.list_len(c))
        return [
            ("view-agrees", z3.Implies(inr, L.eng.intr.iv(st, it) == bs.list_get(V, J))),
            ("items-are-nodes", z3.Implies(inr, item_wf(st, it))),
            ("visited-matches", z3.Implies(z3.And(inr, vis(j)), pyeq(bs.list_get(V, J), bs.plain(bs.list_get(D, J))))),
            ("unvisited-untouched", z3.Implies(z3.And(inr, z3.Not(vis(j))), z3.And(
                it == bs.list_get(c0, J), bs.list_get(V, J) == bs.list_get(V0, J)))),
            ("identity-kept", z3.Implies(z3.And(inr, vis(j), keeps_identity(L.eng, st, bs.list_get(c0, J), z3.BoolVal(True),
                                                                            bs.list_get(D, J))), it == bs.list_get(c0, J))),
        ]

    def invariant(self, L, st, vis):
        E = st.ghost["fn_entry"]
        c, V, c0 = self_cell(st), self_view(st), self_cell(E)
        out = [("length-kept", z3.And(bs.list_len(c) == bs.list_len(c0), bs.list_len(V) == bs.list_len(c))),
               ("typed", smt.tyof(V) == T_LIST)]
        out += self.at(L, st, vis, L.sk["i0"])
        out += [(lab + "@i1", cl) for (lab, cl) in self.at(L, st, vis, L.sk["i1"])]
        return out + surroundings(L, st, E)

    def invariant_instances(self, L, st, vis, i):
        return [cl for (_, cl) in self.at(L, st, vis, i)]

    def iteration_facts(self, L, st, i):
        D = self.data(st)
        c = self_cell(st)
        i0, i1 = L.sk["i0"], L.sk["i1"]
        iti, it0, it1 = bs.list_get(c, VInt(i)), bs.list_get(c, VInt(i0)), bs.list_get(c, VInt(i1))
        st.ghost["item_terms"] = [it0, it1]
        st.ghost["skolem_addr"] = list(st.ghost.get("skolem_addr", [])) + [Val.addr(it0), Val.addr(it1)]
        new_i = bs.list_get(D, VInt(i))

        def distinct(a, ja, b, jb):
            # [A-TREE] distinct slots hold distinct nodes
            return z3.Implies(z3.And(ja != jb, smt.is_VRef(a), smt.is_VRef(b)), Val.addr(a) != Val.addr(b))
        out = [distinct(iti, i, it0, i0), distinct(iti, i, it1, i1), distinct(it0, i0, it1, i1),
               # [N-VIEW] plain views hold no tuples / bytes (see UpdateDictLoop1)
               z3.Implies(pyeq(new_i, L.eng.intr.iv(st, iti)), pyeq(bs.plain(new_i), L.eng.intr.iv(st, iti)))]
        return out + list_validator_facts(L.eng, st, D, [i, i0, i1])

    def at_exit(self, L, st):
        D = self.data(st)
        return list_validator_facts(L.eng, st, D, [L.sk["i0"], L.sk["i1"]]) + tail_facts(L.eng, st, D)


def list_validator_facts(eng, st, D, idxs):
    """Unfolding of the spec predicates of the family's validators on the sequence D at the given indices, and the
    lemma json_ok => strkeys at those items."""
    from contracts import validators as V
    me = st.loc["self"]
    fd, fl = core.sc.family(eng, st.rec(me).cls)
    names = set(eng.R["classes"][st.rec(me).cls.name]["all_validators"]) | set(eng.R["classes"][fd.name]["all_validators"]) \
        | set(eng.R["classes"][fl.name]["all_validators"])
    preds = set()
    for n in names:
        preds.update(V.VALIDATOR_PREDS[n])
    out = []
    for pn in sorted(preds):
        out.extend(V.unfold(pn, D, idxs))
    for j in idxs:
        out.extend(V.family_lemmas(bs.list_get(D, VInt(j))))
    out.extend(V.family_lemmas(D))
    out.append(V.type_discipline(D))
    return out


def tail_facts(eng, st, D):
    """The tail D[n:] appended after the loop (n = len(self)):  [SPEC-BUILTIN] slicing a list / tuple gives a value
    of the same type; list(x) of a sequence is a list with the same items; LEMMA (one unfolding each way, at the
    witnesses):  P(D) => P(D[n:])  and  P(list(x)) <=> P(x) for the spec predicates."""
    from contracts import validators as V
    c = self_cell(st)
    n = bs.list_len(c)
    S = bs.list_slice_from(D, VInt(n))
    LS = bs.list_of(S)
    me = st.loc["self"]
    fd, fl = core.sc.family(eng, st.rec(me).cls)
    names = set(eng.R["classes"][st.rec(me).cls.name]["all_validators"]) | set(eng.R["classes"][fl.name]["all_validators"])
    preds = set()
    for nme in names:
        preds.update(V.VALIDATOR_PREDS[nme])
    out = [smt.tyof(S) == smt.tyof(D), z3.Implies(core.is_sequence(S), smt.tyof(LS) == T_LIST),
           V.type_discipline(S), V.type_discipline(LS)]
    for pn in sorted(preds):
        w = V.witness(pn)
        out.extend(V.unfold(pn, S, []))
        out.extend(V.unfold(pn, LS, []))
        out.extend(V.unfold(pn, D, [n + w(S)]))
        out.extend(V.unfold(pn, S, [w(LS)]))
        out.extend(V.unfold(pn, LS, [w(S)]))
    out.extend(V.family_lemmas(S))
    out.extend(V.family_lemmas(LS))
    return out


class VirtualUpdate(Contract):
    """child._update(new_value) for a child node of unknown class, reached through the slot it is stored in."""
    name = "virtual:_update"
    params = ("self", "data", "_validate")
    defaults = {"data": None, "_validate": False}

    def cases(self, cx):
        def ca(c):
            return child_addr(c.b["self"])

        def dval(c):
            return to_val(c.b["data"])

        def kind_ok(c):
            a = ca(c)
            return z3.If(smt.inst(smt.ClsOf(a), z3.IntVal(smt.tid_of("Mapping"))), core.is_mapping(dval(c)),
                         core.is_sequence(dval(c)))

        def child_ok(c):
            owner = c.b["self"].meta.get("item_of")
            ci = c.pre.rec(owner).cls
            fd, fl = core.sc.family(c.eng, ci)
            d = core.iv(c, c.pre, c.b["data"])
            return z3.If(smt.inst(smt.ClsOf(ca(c)), z3.IntVal(smt.tid_of("Mapping"))), core.allowed(c.eng, fd, d),
                         core.allowed(c.eng, fl, d))

        def mod(c):
            return [("g", "View"), ("g", "Cell"), ("g", "Alloc")] + [("g", n) for n in c.pre.g if n.startswith("LockDom:")]

        def slot(c, out):
            """One-level [L-COMP]: the parent's view changes exactly at the child's slot; its container does not;
            [A-TREE]: nothing outside the child's subtree changes (instantiated at the registered items)."""
            pre, post = c.pre, c.post
            me = c.b["self"]
            a = ca(c)
            owner = me.meta.get("item_of")
            if owner is None:
                raise Unsupported("child _update on a value that was not read from a node's container")
            on = z3.IntVal(owner.addr)
            key = me.meta["key"]
            setop = bs.dict_set if me.meta["cellkind"] == "dict" else bs.list_set
            newview = setop(pre.sel("View", on), key, post.sel("View", a))
            if c.mode == "assume":
                # (assignment rather than equation, so that read-over-write instances see the written term)
                post.upd("View", on, newview)
            else:
                out.append(("L-COMP:parent-slot", post.sel("View", on) == newview))
            ref = me.meta["cell_ref"]
            da = Val.addr(ref.term)
            out.append(("A-TREE:parent-container-kept", post.sel("Cell", da) == pre.sel("Cell", da)))
            root = c.eng.intr.root_of(pre, owner)
            if root.addr != owner.addr and pre.rec(owner).tag.startswith("node"):
                rn = z3.IntVal(root.addr)
                rv = bs.put_in(pre.sel("View", rn), VRef(on), post.sel("View", on))
                if c.mode == "assume":
                    post.upd("View", rn, rv)
                else:
                    out.append(("L-COMP:root", post.sel("View", rn) == rv))
            for t in pre.ghost.get("item_terms", []):
                ta = Val.addr(t)
                out.append(("A-TREE:sibling-untouched", z3.Implies(z3.And(smt.is_VRef(t), ta != a),
                                                                  post.sel("View", ta) == pre.sel("View", ta))))
            # other known nodes (other trees)
            for adr, rec in pre.objs.items():
                if rec.tag.startswith("node") and adr not in (owner.addr, root.addr):
                    an = z3.IntVal(adr)
                    out.append(("A-TREE:other-node", post.sel("View", an) == pre.sel("View", an)))
                    dv = rec.fields.get("_data")
                    if isinstance(dv, Z):
                        oa = Val.addr(dv.term)
                        out.append(("A-TREE:other-cell", post.sel("Cell", oa) == pre.sel("Cell", oa)))
            # containers that belong to no tree (proved of every concrete _update: frame:static-container /
            # frame:foreign-container in core.tree_consistency)
            for v in pre.statics.values():
                if isinstance(v, Z) and v.hint in ("dict", "list"):
                    a_ = Val.addr(v.term)
                    out.append(("frame:static-container", post.sel("Cell", a_) == pre.sel("Cell", a_)))
            for t in pre.ghost.get("frame_cells", []):
                out.append(("frame:foreign-container", post.sel("Cell", t) == pre.sel("Cell", t)))
            out.append(("alloc", post.g["Alloc"] >= pre.g["Alloc"]))
            for nme in pre.g:
                if nme.startswith("LockDom:"):
                    # (pointwise instances of "lock tables only grow", proved of every concrete _update at an
                    # arbitrary key: taken at the Skolem id and at the lock ids of the known nodes)
                    keys = list(pre.ghost.get("skolem_res", []))
                    for a_, rec_ in pre.objs.items():
                        if rec_.tag.startswith("node") and "_filename" in rec_.fields:
                            keys.append(to_val(rec_.fields["_filename"]))
                    for k in keys:
                        out.append(("locks-grow", z3.Implies(z3.Select(pre.g[nme], k), z3.Select(post.g[nme], k))))
            return out

        def post_ok(c):
            a = ca(c)
            out = [("C02:matches", pyeq(c.post.sel("View", a), bs.plain(core.iv(c, c.pre, c.b["data"])))),
                   ("typed", smt.tyof(c.post.sel("View", a)) == smt.tyof(c.pre.sel("View", a)))]
            return slot(c, out)

        return [
            Case("none", "normal", guard=lambda c: dval(c) == VNone, result=lambda c: Const(None)),
            Case("updated", "normal", guard=lambda c: z3.And(dval(c) != VNone, kind_ok(c)), modifies=mod, post=post_ok,
                 result=lambda c: Const(None)),
            Case("wrong-kind", "raise", guard=lambda c: z3.And(dval(c) != VNone, z3.Not(kind_ok(c))), exc=("ValueError",)),
            Case("rejected-entry", "raise", guard=lambda c: z3.And(dval(c) != VNone, kind_ok(c), z3.Not(child_ok(c))),
                 modifies=mod, post=lambda c: slot(c, []), exc=core.EXC_VALIDATION),
        ]


def register_update(eng):
    eng.virtual["_update"] = VirtualUpdate()
    eng.loop_specs[("SyncedDict._update", 1)] = UpdateDictLoop1()
    eng.loop_specs[("SyncedDict._update", 2)] = UpdateDictLoop2()
    eng.loop_specs[("SyncedList._update", 1)] = UpdateListLoop()
