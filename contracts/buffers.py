"""Buffer tier: abstract vocabulary over the concrete buffer statics, contracts of _flush_buffer and of _flush on
a collection of unknown identity (virtual), buffered cases of _load / _save."""
import z3

from pyvc import smt
from pyvc.smt import Val, VNone, VAbsent, VRef, VInt, IntS, BoolS, F, pyeq
from pyvc.values import Z, Bv, Iv, Const, ObjV, ClassV, TupleV, Raise, Unsupported, to_val, as_int
from pyvc.contracts import Contract, Case
from pyvc import builtins_spec as bs
from pyvc import scene as sc
from pyvc.buffer_spec import K_CONTENTS, K_HASH, K_METADATA, K_MODIFIED
from pyvc.stdlib_spec import json_loads, bytes_decode, md5_hex, encode
from pyvc.loops import plain_len
from contracts import core

truthy = F("truthy", Val, BoolS)


class Buf:
    """Accessors of the buffer state of concrete class `cname` in a State."""
    def __init__(self, eng, st, cname):
        self.eng, self.st, self.cname = eng, st, cname
        self.strategy = sc.strategy(eng.P.classes[cname])
        self.ba = Val.addr(st.statics[(cname, "_buffer")].term)
        self.ra = Val.addr(st.statics[(cname, "_buffered_collections")].term)

    @property
    def B(self):
        return self.st.sel("Cell", self.ba)

    @property
    def reg(self):
        return self.st.sel("Cell", self.ra)

    @property
    def size(self):
        return as_int(self.st.statics[(self.cname, "_CURRENT_BUFFER_SIZE")])

    @property
    def cap(self):
        return as_int(self.st.statics[(self.cname, "_BUFFER_CAPACITY")])

    def has(self, f):
        return bs.dict_has(self.B, f)

    def entry_addr(self, f):
        return Val.addr(bs.dict_get(self.B, f))

    def entry(self, f):
        return self.st.sel("Cell", self.entry_addr(f))

    def field(self, f, key):
        return bs.dict_get(self.entry(f), key)

    def wellformed(self, f):
        e = self.entry(f)
        keys = (K_CONTENTS, K_HASH, K_METADATA) if self.strategy == "serialized" else (K_CONTENTS, K_METADATA, K_MODIFIED)
        ref = bs.dict_get(self.B, f)
        typed = [bs.dict_get(e, K_CONTENTS) != VNone, bs.dict_get(e, K_CONTENTS) != VAbsent]
        if self.strategy == "serialized":
            typed.append(bs.dict_get(e, K_HASH) != VNone)
        else:
            typed.append(smt.is_VBool(bs.dict_get(e, K_MODIFIED)))
        return z3.And(smt.is_VRef(ref), Val.addr(ref) > 1000, Val.addr(ref) != self.ba, Val.addr(ref) != self.ra,
                      *([bs.dict_has(e, k) for k in keys] + typed))

    def content_inv(self, f, ci):
        """Inv.buffer (contents): the buffered copy is a document of the collection's kind that its class admits
        (it is always the encoding / the container of some collection's admissible view)."""
        L = self.logical(f)
        kind = self.eng.R["classes"][ci.name]["kind"]
        return z3.And(L != VNone, L != VAbsent, core.is_mapping(L) if kind == "dict" else core.is_sequence(L),
                      core.allowed(self.eng, ci, L), bs.plain(L) == L)

    def modified(self, f):
        return Val.b(self.field(f, K_MODIFIED))

    def changed(self, f):
        """The buffered copy differs from what was read from disk when the entry was created."""
        if self.strategy == "serialized":
            return md5_hex(self.field(f, K_CONTENTS)) != self.field(f, K_HASH)
        return self.modified(f)

    def contrib(self, f):
        if self.strategy == "serialized":
            return z3.If(self.has(f), plain_len(self.field(f, K_CONTENTS)), 0)
        return z3.If(z3.And(self.has(f), self.modified(f)), 1, 0)

    def logical(self, f):
        """L(cls, f): what a buffered read of file f sees."""
        if self.strategy == "serialized":
            return z3.If(self.has(f), json_loads(bytes_decode(self.field(f, K_CONTENTS))), self.st.sel("Res", f))
        c = self.field(f, K_CONTENTS)
        return z3.If(self.has(f), self.st.sel("CView", Val.addr(c)), self.st.sel("Res", f))


# [L-SUM]  size == sum over files of contrib(f).  The sum over the (finitely many) files of a buffer is an
# uninterpreted function of the buffer dict value and the heap; the two facts about finite sums of non-negative
# terms that the proofs use are stated as axioms with WITNESS functions and instantiated by hand:
#   (zero)  Sum(S) >= contrib_S(f) >= 0 for every f;   Sum(S) > 0  =>  contrib_S(w(S)) > 0
#   (step)  d = diff(S, S', f):  (d == f or contrib_S'(d) == contrib_S(d))  =>  Sum(S') - Sum(S) == contrib_S'(f) - contrib_S(f)
ARR_IV = z3.ArraySort(IntS, Val)


def buf_sum(b):
    return F("buf_sum_" + b.strategy, Val, ARR_IV, IntS)(b.B, b.st.g["Cell"])


def sum_witness(b):
    return F("buf_sum_witness_" + b.strategy, Val, ARR_IV, Val)(b.B, b.st.g["Cell"])


def sum_diff(bp, bq, f):
    return F("buf_sum_diff_" + bp.strategy, Val, ARR_IV, Val, ARR_IV, Val, Val)(bp.B, bp.st.g["Cell"], bq.B, bq.st.g["Cell"], f)


def lsum_bounds(b, f):
    return z3.And(buf_sum(b) >= b.contrib(f), b.contrib(f) >= 0)


def lsum_zero(b):
    return z3.Implies(buf_sum(b) > 0, b.contrib(sum_witness(b)) > 0)


def lsum_step(bp, bq, f):
    d = sum_diff(bp, bq, f)
    return z3.Implies(z3.Or(d == f, bq.contrib(d) == bp.contrib(d)), buf_sum(bq) - buf_sum(bp) == bq.contrib(f) - bp.contrib(f))


def inv_size(b):
    return b.size == buf_sum(b)


def known_files(st, cname):
    """Filenames the current state talks about: those of the known root objects of class cname + Skolems."""
    out = []
    for a, rec in st.objs.items():
        if rec.tag.startswith("node") and rec.cls.name == cname and not isinstance(rec.fields.get("_root"), ObjV):
            out.append(to_val(rec.fields["_filename"]))
    out.extend(st.ghost.get("skolem_files", []))
    return out


def cover_in(reg, k, a):
    """The registry value `reg` maps key k to the collection object at address a."""
    return z3.And(bs.dict_has(reg, k), bs.dict_get(reg, k) == VRef(a))


def inv_cover(eng, st, cn, f):
    """Inv.cover at file f: if f has a buffer entry then a collection bound to f is registered — the ghost witness
    recorded for f in st.ghost['covers'], or one of the known root objects of the class."""
    b = Buf(eng, st, cn)
    alts = []
    cov = st.ghost.get("covers", {}).get(f.get_id())
    if cov is not None:
        alts.append(z3.And(cover_in(b.reg, cov[1], cov[2]), z3.Select(st.g["NodeFile"], cov[2]) == f))
    for a, rec in st.objs.items():
        if rec.tag.startswith("node") and rec.cls.name == cn and not isinstance(rec.fields.get("_root"), ObjV):
            alts.append(z3.And(to_val(rec.fields["_filename"]) == f, cover_in(b.reg, VInt(z3.IntVal(a)), z3.IntVal(a))))
    return z3.Implies(b.has(f), smt.or_(alts))


class FlushBufferContract(Contract):
    """FileBufferedCollection._flush_buffer(cls, force=False, retain_in_force=False).

    PROVED against its body (props/buffers.check_flush_buffer_def: `while True` over registry.popitem() with the
    sidecar invariant FlushBufferLoop; the popped collections are objects of unknown identity whose _flush is the
    FlushContract, itself proved against each class's real _flush) from a state satisfying Inv.cover / Inv.registry;
    `requires` (Inv.cover at the caller's files; the shared strategy retains on a forced flush) is checked at every
    call site.  The size clauses (Inv.size kept, size >= 0, size == 0 after a forced flush without fault) are proved
    from Inv.size at entry with the two [L-SUM] axioms about finite sums (witness functions, instantiated by hand).
    Clauses, pointwise per file f (call sites: the files of the known objects and the Skolem files; definition: a
    Skolem file), none of them claimed for a file at which an injected I/O fault was recorded:
      force:   afterwards the reported size is 0 [L-SUM]; (serialized) f has no entry, (shared) f's entry is unmodified;
               a modified, non-conflicting copy was written:  Res'[f] == L(f)  (Python ==);
               an unmodified copy was not written:  FS'[f] == FS[f];
      raises BufferedError only if some flushed file was modified and conflicting."""
    name = "FileBufferedCollection._flush_buffer"
    params = ("cls", "force", "retain_in_force")
    defaults = {"force": False, "retain_in_force": False}

    def requires(self, cx):
        """Inv.cover at the files the caller's state talks about; the shared-memory strategy passes
        retain_in_force=True (entries stay in the buffer after a forced flush, so their collections must stay
        registered)."""
        if "NodeFile" not in cx.pre.g:
            return []
        cn = cx.b["cls"].ci.name
        # (nothing is required - and nothing was promised - about a file for which an I/O fault has been recorded)
        out = [("Inv.cover", z3.Implies(z3.Not(z3.Select(cx.pre.g["IoFault"], f)), inv_cover(cx.eng, cx.pre, cn, f)))
               for f in known_files(cx.pre, cn)]
        if Buf(cx.eng, cx.pre, cn).strategy == "shared":
            out.append(("forced-shared-flush-retains", z3.Implies(flag(cx.b["force"]), flag(cx.b["retain_in_force"]))))
        return out

    def cases(self, cx):
        def cname(c):
            return c.b["cls"].ci.name

        def forced(c):
            f = c.b["force"]
            if isinstance(f, Const):
                return z3.BoolVal(bool(f.v))
            return f.term if isinstance(f, Bv) else truthy(to_val(f))

        def mod(c):
            cn = cname(c)
            locs = [("g", n) for n in ("Cell", "View", "CView", "Alloc", "Res", "Wr", "FS", "Meta", "FsTick") if n in c.pre.g]
            locs += [("g", n) for n in c.pre.g if n.startswith("LockDom:")]
            locs += [("static", cn, "_CURRENT_BUFFER_SIZE"), ("static", cn, "_buffered_collections")]
            if "IoFault" in c.pre.g:
                locs.append(("g", "IoFault"))
            for a, rec in c.pre.objs.items():
                if rec.tag.startswith("node") and "_data" in rec.fields:
                    locs.append(("field", a, "_data"))
            return locs

        def per_file(c, raised):
            cn = cname(c)
            bp, bq = Buf(c.eng, c.pre, cn), Buf(c.eng, c.post, cn)
            out = []
            from props.buffers import stat_value
            files = known_files(c.pre, cn) if c.mode == "assume" else list(c.pre.ghost.get("skolem_files", []))
            for f in files:
                had, changed = bp.has(f), bp.changed(f)
                nofault = z3.Not(z3.Select(c.post.g["IoFault"], f)) if "IoFault" in c.post.g else z3.BoolVal(True)
                conflict = z3.Not(pyeq(bp.field(f, K_METADATA), stat_value(c.pre, f)))
                L = bp.logical(f)
                if not raised:
                    out.append(("C07:no-silent-overwrite", z3.Implies(forced(c), z3.Not(z3.And(had, changed, conflict)))))
                P = lambda *xs: z3.And(nofault, *xs)      # nothing is claimed about a file hit by an I/O fault
                out.append(("C15:forced-flush-loses-nothing",
                            z3.Implies(z3.And(forced(c), had, changed, z3.Not(conflict), nofault), pyeq(c.post.sel("Res", f), L))))
                if not raised and "IoFault" in c.post.g:
                    out.append(("normal-return-means-no-fault", z3.Implies(z3.Not(z3.Select(c.pre.g["IoFault"], f)), nofault)))
                cov = c.pre.ghost.get("covers", {}).get(f.get_id())
                if cov is not None and "NodeBuf" in c.pre.g:
                    # an UNFORCED buffer-wide flush (exit of the backend-wide context) flushes the files whose
                    # registered collection is no longer buffered: written if changed, entry dropped
                    bctx = as_int(c.pre.rec(c.pre.statics[(cn, "_buffer_context")]).fields["_count"])
                    unbuf = z3.And(z3.Select(c.pre.g["NodeBuf"], cov[2]) <= 0, bctx <= 0,
                                   cover_in(bp.reg, cov[1], cov[2]), z3.Select(c.pre.g["NodeFile"], cov[2]) == f)
                    out.append(("C05:unbuffered-collections-are-flushed",
                                z3.Implies(P(unbuf, had, changed, z3.Not(conflict)), pyeq(c.post.sel("Res", f), L))))
                    out.append(("C07:unbuffered-entries-dropped",
                                z3.Implies(P(unbuf, z3.Not(forced(c))), z3.Not(bq.has(f)))))
                if cov is not None and c.mode == "prove":
                    # Inv.cover re-established: a file that still has an entry still has a registered collection
                    k_c, a_c = cov[1], cov[2]
                    out.append(("Inv.cover:kept", z3.Implies(P(bq.has(f)), cover_in(bq.reg, k_c, a_c))))
                elif c.mode == "assume" and "NodeFile" in c.pre.g:
                    # (the cover that satisfied `requires` is still registered if the entry is still there)
                    ip, iq = inv_cover(c.eng, c.pre, cn, f), inv_cover(c.eng, c.post, cn, f)
                    out.append(("Inv.cover:kept", z3.Implies(nofault, iq)))
                out.append(("C17:unmodified-not-written",
                            z3.Implies(P(had, z3.Not(changed)), z3.And(c.post.sel("FS", f) == c.pre.sel("FS", f),
                                                                           c.post.sel("Res", f) == c.pre.sel("Res", f)))))
                out.append(("C07:conflicting-not-written",
                            z3.Implies(P(had, changed, conflict), z3.And(c.post.sel("FS", f) == c.pre.sel("FS", f),
                                                                            c.post.sel("Res", f) == c.pre.sel("Res", f)))))
                out.append(("C05:absent-untouched", z3.Implies(P(z3.Not(had)), z3.And(z3.Not(bq.has(f)),
                                                                                  c.post.sel("FS", f) == c.pre.sel("FS", f),
                                                                                  c.post.sel("Res", f) == c.pre.sel("Res", f)))))
                if bp.strategy == "serialized":
                    out.append(("C15:forced-entries-dropped", z3.Implies(P(forced(c)), z3.Not(bq.has(f)))))
                else:
                    out.append(("C15:forced-entries-clean", z3.Implies(P(forced(c), had),
                                                                       z3.And(bq.has(f), z3.Not(bq.modified(f)),
                                                                              bq.wellformed(f),
                                                                              bq.field(f, K_CONTENTS) == bp.field(f, K_CONTENTS)))))
            for t in c.pre.ghost.get("foreign_cells", []):
                out.append(("frame:foreign-container", c.post.sel("Cell", t) == c.pre.sel("Cell", t)))
            c.eng.note("[L-SUM]")
            if c.mode == "assume":
                # call sites: Inv.size holds whenever _flush_buffer is called ([Inv.size], see DESIGN.md 11.3), so the
                # clauses proved below under `Inv.size(pre)` are available unconditionally
                if not raised:
                    out.append(("C15:size-zero-after-forced-flush", z3.Implies(forced(c), bq.size == 0)))
                out.append(("size-nonnegative", bq.size >= 0))
                out.append(("C15:Inv.size-kept", inv_size(bq)))
                c.post.ghost["size_anchor"] = c.post.copy()
            else:
                # definition: from Inv.size at entry (assumed by the definition check).  The state just before the
                # registry is re-bound satisfies Inv.size (loop invariant); re-binding allocates a new dict object:
                # [L-SUM] (step) across it, with Inv.buffer at the witness file
                y = c.post.ghost.get("pre_box_state")
                f0 = c.pre.ghost["skolem_files"][0]
                hyp = [lsum_bounds(bq, f0), lsum_zero(bq)]
                if y is not None:
                    by = Buf(c.eng, y, cn)
                    d = sum_diff(by, bq, f0)
                    hyp += [lsum_step(by, bq, f0),
                            z3.Implies(by.has(d), z3.And(by.wellformed(d), by.entry_addr(d) < y.g["Alloc"])),
                            z3.Implies(by.has(f0), z3.And(by.wellformed(f0), by.entry_addr(f0) < y.g["Alloc"]))]
                H = smt.and_(hyp)
                out.append(("C15:Inv.size-kept", z3.Implies(H, inv_size(bq))))
                out.append(("size-nonnegative", z3.Implies(H, bq.size >= 0)))
                # size == 0 after a forced flush: the Skolem file is bound to the file that would still contribute
                nf0 = z3.Not(z3.Select(c.post.g["IoFault"], f0)) if "IoFault" in c.post.g else z3.BoolVal(True)
                out.append(("C15:size-zero-after-forced-flush",
                            z3.Implies(z3.And(H, f0 == sum_witness(bq), forced(c), nf0), bq.size == 0)))
            out.append(("alloc", c.post.g["Alloc"] >= c.pre.g["Alloc"]))
            out.append(("registry-is-a-container", z3.BoolVal(True)))
            out.append(("C10:lock-tables-only-grow", core.locks_monotone(c)))
            return out

        def post_ok(c):
            if c.mode == "assume":
                c.post.event("flush-buffer", cname(c), forced(c))
                # the registry is rebound to a fresh dict object
                cn = cname(c)
                ra = smt.fresh("regaddr'", IntS)
                c.post.assume(ra >= c.pre.g["Alloc"], ra < c.post.g["Alloc"])
                c.post.statics[(cn, "_buffered_collections")] = Z(VRef(ra), "dict", {"static": (cn, "_buffered_collections")})
            return per_file(c, False)

        def post_err(c):
            if c.mode == "assume":
                c.post.event("flush-buffer-error", cname(c), forced(c))
                cn = cname(c)
                ra = smt.fresh("regaddr'", IntS)
                c.post.assume(ra >= c.pre.g["Alloc"], ra < c.post.g["Alloc"])
                c.post.statics[(cn, "_buffered_collections")] = Z(VRef(ra), "dict", {"static": (cn, "_buffered_collections")})
                c.exc.attrs["files"] = Z(smt.fresh("issues"), None, {"plain": True})
            return per_file(c, True)

        def post_fault(c):
            if c.mode == "assume":
                c.post.event("io-fault", "_flush_buffer")
                c.post.event("flush-buffer-error", cname(c), forced(c))
                cn = cname(c)
                ra = smt.fresh("regaddr'", IntS)
                c.post.assume(ra >= c.pre.g["Alloc"], ra < c.post.g["Alloc"])
                c.post.statics[(cn, "_buffered_collections")] = Z(VRef(ra), "dict", {"static": (cn, "_buffered_collections")})
            out = [("alloc", c.post.g["Alloc"] >= c.pre.g["Alloc"]), ("C10:lock-tables-only-grow", core.locks_monotone(c))]
            if c.mode == "assume" and "IoFault" in c.post.g:
                # ghost bookkeeping: after an environment fault nothing is claimed about any file
                for f in known_files(c.pre, cname(c)):
                    c.post.upd("IoFault", f, z3.BoolVal(True))
            for t in c.pre.ghost.get("foreign_cells", []):
                out.append(("frame:foreign-container", c.post.sel("Cell", t) == c.pre.sel("Cell", t)))
            return out

        return [
            Case("flushed", "normal", modifies=mod, post=post_ok, result=lambda c: Const(None)),
            Case("issues", "raise", modifies=mod, post=post_err, exc=("BufferedError",)),
            # an exception of a collection's flush that is neither OSError nor MetadataError (an unreadable file
            # met while re-loading) leaves the loop: environment fault, nothing is claimed
            Case("fault", "raise", modifies=mod, post=post_fault, exc=("ValueError", "TypeError")),
        ]


# =================================================================================================
# _flush of ONE collection (known object, or a member of the registry of unknown identity)
def stat_of(st, fn):
    from props.buffers import stat_value
    return stat_value(st, fn)


def recv_info(c, st, v):
    """File, buffered flag and address of a buffered root collection: a known object or a registry member whose
    attributes are ghost functions of its address (NodeFile, NodeBuf)."""
    if isinstance(v, ObjV):
        rec = st.rec(v)
        cn = rec.cls.name
        f = to_val(rec.fields["_filename"])
        bobj = as_int(st.rec(rec.fields["buffered"]).fields["_count"])
        n = z3.IntVal(v.addr)
    else:
        cn = v.meta["registered_of"]
        n = Val.addr(v.term)
        f = z3.Select(st.g["NodeFile"], n)
        bobj = z3.Select(st.g["NodeBuf"], n)
    bctx = as_int(st.rec(st.statics[(cn, "_buffer_context")]).fields["_count"])
    return dict(cname=cn, f=f, buffered=z3.Or(bobj > 0, bctx > 0), n=n, known=isinstance(v, ObjV), obj=v)


def flag(v):
    if isinstance(v, Const):
        return z3.BoolVal(bool(v.v))
    return v.term if isinstance(v, Bv) else truthy(to_val(v))


def entry_same(bp, bq, g):
    """File g has the same buffer entry (same entry object with the same content) in both states."""
    return z3.And(bq.has(g) == bp.has(g),
                  z3.Implies(bp.has(g), z3.And(bs.dict_get(bq.B, g) == bs.dict_get(bp.B, g), bq.entry(g) == bp.entry(g))))


def file_same(pre, post, g):
    return z3.And(post.sel("FS", g) == pre.sel("FS", g), post.sel("Res", g) == pre.sel("Res", g),
                  post.sel("Meta", g) == pre.sel("Meta", g), post.sel("Wr", g) == pre.sel("Wr", g))


def settled(bp, bq, f, forced):
    """What a flush of file f leaves in the buffer: no entry - or, for a forced flush of the shared-memory buffer,
    the same entry marked clean."""
    if bp.strategy == "serialized":
        return z3.Not(bq.has(f))
    clean = z3.And(bq.has(f), z3.Not(bq.modified(f)), bq.wellformed(f), bs.dict_get(bq.B, f) == bs.dict_get(bp.B, f),
                   bq.field(f, K_CONTENTS) == bp.field(f, K_CONTENTS))
    return z3.If(forced, clean, z3.Not(bq.has(f)))


class FlushContract(Contract):
    """X._flush(self, force=False) of a file-buffered root collection bound to file f.  Cases by the PRE state:
       noop       still buffered and not forced                       nothing changes
       absent     f has no entry                                      buffer and files unchanged
       unchanged  entry not changed since it was read                 nothing written; entry settled
       written    entry changed, metadata still current               Res'[f] == L(f)  (Python ==); entry settled
       conflict   entry changed, file changed outside                 MetadataError(f); nothing written; entry settled
       fault      environment fault (I/O error, unreadable file)      entry settled; other files / entries kept
    In every case: size delta == contribution delta of f; entries, files and contents of OTHER files untouched;
    registry and foreign containers untouched."""
    name = "_flush"
    params = ("self", "force")
    defaults = {"force": False}
    manages_cview = True          # CView is in `modifies` and framed by the post clauses themselves

    def cases(self, cx):
        def R(c):
            return recv_info(c, c.pre, c.b["self"])

        def forced(c):
            return flag(c.b["force"])

        def flushes(c):
            return z3.Or(z3.Not(R(c)["buffered"]), forced(c))

        def bufs(c):
            cn = R(c)["cname"]
            return Buf(c.eng, c.pre, cn), Buf(c.eng, c.post, cn)

        def had(c):
            return bufs(c)[0].has(R(c)["f"])

        def changed(c):
            return bufs(c)[0].changed(R(c)["f"])

        def conflict(c):
            bp = bufs(c)[0]
            f = R(c)["f"]
            return z3.Not(pyeq(bp.field(f, K_METADATA), stat_of(c.pre, f)))

        def mod(c):
            cn = R(c)["cname"]
            locs = [("g", n) for n in ("Cell", "View", "CView", "Alloc", "Res", "Wr", "FS", "Meta", "FsTick") if n in c.pre.g]
            locs += [("g", n) for n in c.pre.g if n.startswith("LockDom:")]
            locs += [("static", cn, "_CURRENT_BUFFER_SIZE")]
            if "IoFault" in c.pre.g:
                locs.append(("g", "IoFault"))
            if R(c)["known"]:
                locs.append(("field", c.b["self"].addr, "_data"))
            return locs

        def common(c):
            r = R(c)
            f = r["f"]
            bp, bq = bufs(c)
            pre, post = c.pre, c.post
            out = [("C15:size-tracks-this-file", bq.size - bp.size == bq.contrib(f) - bp.contrib(f)),
                   ("buffer-object-kept", bq.ba == bp.ba),
                   ("registry-kept", z3.And(bq.ra == bp.ra, bq.reg == bp.reg)),
                   ("alloc", post.g["Alloc"] >= pre.g["Alloc"]),
                   ("C10:lock-tables-only-grow", core.locks_monotone(c))]
            for g in pre.ghost.get("skolem_files", []):
                out.append(("frame:other-entries-untouched", z3.Implies(g != f, entry_same(bp, bq, g))))
                out.append(("frame:other-files-untouched", z3.Implies(z3.And(g != f, smt.known_name(g)), file_same(pre, post, g))))
                if bp.strategy == "shared":
                    ca = Val.addr(bp.field(g, K_CONTENTS))
                    out.append(("frame:other-contents-untouched",
                                z3.Implies(z3.And(g != f, bp.has(g)), post.sel("CView", ca) == pre.sel("CView", ca))))
                if "IoFault" in pre.g:
                    out.append(("frame:other-faults", z3.Implies(g != f, z3.Select(post.g["IoFault"], g) == z3.Select(pre.g["IoFault"], g))))
            for t in list(pre.ghost.get("foreign_cells", [])):
                out.append(("frame:foreign-container", post.sel("Cell", t) == pre.sel("Cell", t)))
            keeps = z3.Implies(inv_size(bp), inv_size(bq))
            if c.mode == "prove":
                # [L-SUM] (step) at (pre, post, f); the arbitrary Skolem file is bound to the file at which the two
                # states could differ (late binding): its entry is untouched by the frame clause above
                g0 = pre.ghost["skolem_files"][0]
                c.eng.note("[L-SUM]")
                keeps = z3.Implies(z3.And(g0 == sum_diff(bp, bq, f), lsum_step(bp, bq, f)), keeps)
            out.append(("C15:Inv.size-kept", keeps))
            return out

        def nofault(c):
            if "IoFault" in c.pre.g:
                f = R(c)["f"]
                return [("no-fault-recorded", z3.Select(c.post.g["IoFault"], f) == z3.Select(c.pre.g["IoFault"], f))]
            return []

        def post_absent(c):
            bp, bq = bufs(c)
            pre, post = c.pre, c.post
            return [("absent:buffer-unchanged", z3.And(bq.B == bp.B, bq.size == bp.size)),
                    ("absent:no-file-effect", z3.And(post.g["FS"] == pre.g["FS"], post.g["Res"] == pre.g["Res"],
                                                     post.g["Wr"] == pre.g["Wr"], post.g["Meta"] == pre.g["Meta"]))] \
                + nofault(c) + common(c)

        def post_unchanged(c):
            bp, bq = bufs(c)
            pre, post = c.pre, c.post
            f = R(c)["f"]
            out = [("C17:unchanged-copy-not-written", z3.And(post.g["FS"] == pre.g["FS"], post.g["Res"] == pre.g["Res"],
                                                             post.g["Wr"] == pre.g["Wr"], post.g["Meta"] == pre.g["Meta"])),
                   ("C07:entry-settled", settled(bp, bq, f, forced(c)))]
            if bp.strategy == "shared":
                # an entry that stays in the buffer without having been written keeps the metadata of the disk version
                # its content was read from: otherwise an outside change made meanwhile is forgotten, and a later
                # modification of the copy overwrites it silently
                out.append(("C07:read-only-entry-keeps-its-metadata",
                            z3.Implies(forced(c), pyeq(bq.field(f, K_METADATA), bp.field(f, K_METADATA)))))
            return out + nofault(c) + common(c)

        def post_written(c):
            bp, bq = bufs(c)
            f = R(c)["f"]
            return [("C06:changed-copy-written-from-the-entry", pyeq(c.post.sel("Res", f), bp.logical(f))),
                    ("C07:entry-settled", settled(bp, bq, f, forced(c)))] + nofault(c) + common(c)

        def post_conflict(c):
            bp, bq = bufs(c)
            pre, post = c.pre, c.post
            f = R(c)["f"]
            fnattr = c.exc.attrs.get("filename") if c.mode == "prove" else None
            out = [("C07:outside-content-kept", z3.And(post.g["FS"] == pre.g["FS"], post.g["Res"] == pre.g["Res"],
                                                       post.g["Wr"] == pre.g["Wr"], post.g["Meta"] == pre.g["Meta"])),
                   ("C07:entry-settled", settled(bp, bq, f, forced(c)))]
            if c.mode == "prove":
                out.append(("C07:error-names-the-file", (to_val(fnattr) == f) if fnattr is not None else z3.BoolVal(False)))
            else:
                c.exc.attrs["filename"] = Z(f, "str", {"plain": True})
            return out + nofault(c) + common(c)

        def post_fault(c):
            if c.mode == "assume":
                c.post.event("io-fault", "_flush")
                if "IoFault" in c.post.g:
                    c.post.upd("IoFault", R(c)["f"], z3.BoolVal(True))
            return common(c)

        def post_noop(c):
            bp, bq = bufs(c)
            f = R(c)["f"]
            pre, post = c.pre, c.post
            return [("noop:buffer-unchanged", z3.And(bq.B == bp.B, bq.size == bp.size, entry_same(bp, bq, f))),
                    ("noop:no-file-effect", z3.And(post.g["FS"] == pre.g["FS"], post.g["Res"] == pre.g["Res"],
                                                   post.g["Wr"] == pre.g["Wr"], post.g["Meta"] == pre.g["Meta"]))] \
                + nofault(c) + common(c)

        def mod_noop(c):
            # the shared-memory strategy rebuilds the object's own data (it stops sharing the buffered container)
            return [m for m in mod(c) if m[0] != "g" or m[1] in ("Cell", "View", "CView", "Alloc") or m[1].startswith("LockDom:")]

        return [
            Case("noop", "normal", guard=lambda c: z3.Not(flushes(c)), modifies=mod_noop, post=post_noop,
                 result=lambda c: Const(None)),
            Case("absent", "normal", guard=lambda c: z3.And(flushes(c), z3.Not(had(c))), modifies=mod, post=post_absent,
                 result=lambda c: Const(None)),
            Case("unchanged", "normal", guard=lambda c: z3.And(flushes(c), had(c), z3.Not(changed(c))), modifies=mod,
                 post=post_unchanged, result=lambda c: Const(None)),
            Case("written", "normal", guard=lambda c: z3.And(flushes(c), had(c), changed(c), z3.Not(conflict(c))),
                 modifies=mod, post=post_written, result=lambda c: Const(None)),
            Case("conflict", "raise", guard=lambda c: z3.And(flushes(c), had(c), changed(c), conflict(c)), modifies=mod,
                 post=post_conflict, exc=("MetadataError",)),
            Case("fault", "raise", guard=lambda c: flushes(c), modifies=mod, post=post_fault,
                 exc=("OSError", "ValueError", "TypeError")),
        ]


# =================================================================================================
# the loop of _flush_buffer
from pyvc.loops import LoopSpec


def member_facts(eng, st, cn, v):
    """Inv.registry: a value of cls._buffered_collections is a root collection object of exactly that class, with a
    file name the program holds; it is none of the buffer's own container objects."""
    a = Val.addr(v)
    b = Buf(eng, st, cn)
    f = z3.Select(st.g["NodeFile"], a)
    return z3.And(smt.is_VRef(v), a > 1000, a < st.g["Alloc"], a != b.ba, a != b.ra,
                  smt.ClsOf(a) == z3.IntVal(smt.tid_of(cn)), smt.is_VStr(f), smt.known_name(f),
                  z3.Select(st.g["NodeBuf"], a) >= 0)


class FlushBufferLoop(LoopSpec):
    """`while True: (col_id, collection) = registry.popitem() ... collection._flush(force)` of _flush_buffer.
    Pointwise at a Skolem file f0 (E = state at function entry, S = now, R = the registry dict, had / changed /
    conflict / L evaluated in E):
      untouched(f0)  f0's entry, file, (shared) contents view and fault flag are exactly as in E
      done(f0)       f0's entry is settled (gone; or, forced shared flush, the same entry marked clean), an
                     unchanged / conflicting / absent copy left the file alone, a conflicting one is recorded in
                     `issues`, a changed non-conflicting one was written from the entry (unless an I/O fault hit f0)
      INV  untouched(f0) or done(f0);   forced and had and not done(f0) => cover(f0) is still in R;
           f0 still has an entry and cover(f0) was popped => cover(f0) is in remaining_collections;
           a fault at f0 is recorded in `issues`."""
    def prepare(self, L, st):
        import ast
        from pyvc.loops import param_name, name_in
        st.ghost["fn_entry"] = st.copy()
        fi = L.fi
        # locals by ROLE (robust against renaming): parameters by position; `remaining` is the dict assigned to
        # cls._buffered_collections after the loop; `issues` is the dict handed to BufferedError
        L.sk["n_cls"], L.sk["n_force"], L.sk["n_retain"] = param_name(fi, 0), param_name(fi, 1), param_name(fi, 2)
        L.sk["n_rem"] = name_in(fi, lambda n: n.value.id if isinstance(n, ast.Assign) and isinstance(n.value, ast.Name)
                                and any(isinstance(t, ast.Attribute) and t.attr == "_buffered_collections" for t in n.targets) else None)
        L.sk["n_iss"] = name_in(fi, lambda n: n.exc.args[0].id if isinstance(n, ast.Raise) and isinstance(n.exc, ast.Call)
                                and isinstance(n.exc.func, ast.Name) and n.exc.func.id == "BufferedError"
                                and n.exc.args and isinstance(n.exc.args[0], ast.Name) else None)

    def parts(self, L, st):
        E = st.ghost["fn_entry"]
        cls = st.loc[L.sk["n_cls"]]
        cn = cls.ci.name
        bE, bS = Buf(L.eng, E, cn), Buf(L.eng, st, cn)
        forced = flag(st.loc[L.sk["n_force"]])
        retain = flag(st.loc[L.sk["n_retain"]])
        return E, cn, bE, bS, forced, retain

    def havoc(self, L, st):
        for n in list(st.g):
            if n in ("Cell", "View", "CView", "Alloc", "Res", "Wr", "FS", "Meta", "FsTick", "IoFault") or n.startswith("LockDom:"):
                st.g[n] = smt.fresh(n + "~", st.g[n].sort())
        cn = st.loc[L.sk["n_cls"]].ci.name
        st.statics[(cn, "_CURRENT_BUFFER_SIZE")] = Iv(smt.fresh("size~", IntS))
        for nme in (L.sk["n_rem"], L.sk["n_iss"]):
            old = st.loc[nme]
            st.loc[nme] = Z(smt.fresh(nme + "~"), None, {"fresh_container": True})

    def invariant(self, L, st, vis):
        E, cn, bE, bS, forced, retain = self.parts(L, st)
        out = []
        rem, iss = st.loc[L.sk["n_rem"]].term, st.loc[L.sk["n_iss"]].term
        T_DICT = z3.IntVal(smt.tid_of("dict"))
        out.append(("locals-are-dicts", z3.And(smt.tyof(rem) == T_DICT, smt.tyof(iss) == T_DICT)))
        out.append(("alloc-monotone", st.g["Alloc"] >= E.g["Alloc"]))
        for t in E.ghost.get("foreign_cells", []):
            out.append(("foreign-container-kept", st.sel("Cell", t) == E.sel("Cell", t)))
        for nme in E.g:
            if nme.startswith("LockDom:"):
                for k in E.ghost.get("skolem_res", []):
                    out.append((f"lock-table-grows:{nme[8:]}", z3.Implies(z3.Select(E.g[nme], k), z3.Select(st.g[nme], k))))
        R = bS.reg
        out.append(("Inv.size", inv_size(bS)))
        for f0 in E.ghost.get("skolem_files", []):
            (_, k_c, a_c) = E.ghost["covers"][f0.get_id()]
            had, changed = bE.has(f0), bE.changed(f0)
            conflict = z3.Not(pyeq(bE.field(f0, K_METADATA), stat_of(E, f0)))
            Lf = bE.logical(f0)
            fault = z3.Select(st.g["IoFault"], f0)
            untouched = z3.And(entry_same(bE, bS, f0), file_same(E, st, f0), z3.Not(fault))
            if bE.strategy == "shared":
                ca = Val.addr(bE.field(f0, K_CONTENTS))
                untouched = z3.And(untouched, z3.Implies(had, st.sel("CView", ca) == E.sel("CView", ca)))
                clean = z3.And(bS.has(f0), z3.Not(bS.modified(f0)), bS.wellformed(f0),
                               bs.dict_get(bS.B, f0) == bs.dict_get(bE.B, f0),
                               bS.field(f0, K_CONTENTS) == bE.field(f0, K_CONTENTS))
                settled_ = z3.If(z3.And(forced, had), clean, z3.Not(bS.has(f0)))
            else:
                settled_ = z3.Not(bS.has(f0))
            kept = z3.And(st.sel("FS", f0) == E.sel("FS", f0), st.sel("Res", f0) == E.sel("Res", f0))
            done = z3.And(settled_,
                          z3.Implies(z3.Not(had), kept),
                          z3.Implies(z3.And(had, z3.Not(changed)), kept),
                          z3.Implies(z3.And(had, changed, conflict), z3.And(kept, bs.dict_has(iss, f0))),
                          z3.Implies(z3.And(had, changed, z3.Not(conflict), z3.Not(fault)), pyeq(st.sel("Res", f0), Lf)))
            # (after an injected I/O fault at f0 nothing is claimed about f0 except that the fault is reported)
            out.append(("f0:untouched-or-done", z3.Or(untouched, done, fault)))
            # the witness collection of Inv.cover is flushed when the flush is forced or when it is no longer buffered
            bctx = as_int(st.rec(st.statics[(cn, "_buffer_context")]).fields["_count"])
            cover_unbuffered = z3.And(z3.Select(st.g["NodeBuf"], a_c) <= 0, bctx <= 0)
            out.append(("f0:cover-still-registered", z3.Implies(z3.And(z3.Or(forced, cover_unbuffered), had, z3.Not(done),
                                                                       z3.Not(fault)), cover_in(R, k_c, a_c))))
            # C07: the error names EXACTLY the conflicting files (and those hit by an I/O fault)
            out.append(("f0:issues-exact", z3.Implies(bs.dict_has(iss, f0), z3.Or(z3.And(had, changed, conflict), fault))))
            out.append(("f0:cover-retained", z3.Implies(z3.And(bS.has(f0), z3.Not(cover_in(R, k_c, a_c)), z3.Not(fault)),
                                                        cover_in(rem, k_c, a_c))))
            out.append(("f0:fault-recorded", z3.Implies(fault, bs.dict_has(iss, f0))))
        return out

    def iteration_facts(self, L, st, i):
        E, cn, bE, bS, forced, retain = self.parts(L, st)
        R = bS.reg
        pair = bs.dict_popitem_pair(R)
        v = F("unpack2_1", Val, Val)(pair)
        k = F("unpack2_0", Val, Val)(pair)
        # Inv.registry: the key of a member is its id()
        out = [z3.Implies(bs.dict_len(R) > 0, z3.And(member_facts(L.eng, st, cn, v), k == VInt(Val.addr(v)))),
               bs.dict_len(R) >= 0]
        for f0 in E.ghost.get("skolem_files", []):
            (_, k_c, a_c) = E.ghost["covers"][f0.get_id()]
            # Inv.registry at the cover: if it is still registered it is a member like any other
            out.append(z3.Implies(cover_in(R, k_c, a_c), member_facts(L.eng, st, cn, VRef(a_c))))
            # Inv.buffer: a present entry is well-formed (as assumed at every read of the buffer)
            out.append(z3.Implies(bS.has(f0), bS.wellformed(f0)))
            # [L-SUM] (step) across the popitem of this iteration: it changes the registry object only
            p = st.copy()
            p.upd("Cell", bS.ra, bs.dict_popitem_rest(R))
            bP = Buf(L.eng, p, cn)
            d = sum_diff(bS, bP, f0)
            L.eng.note("[L-SUM]")
            out.append(lsum_step(bS, bP, f0))
            out.append(z3.Implies(bS.has(d), bS.wellformed(d)))      # Inv.buffer at the witness file
        return out


def register(eng):
    eng.contracts["FileBufferedCollection._flush_buffer"] = FlushBufferContract()
    eng.loop_specs[("FileBufferedCollection._flush_buffer", 1)] = FlushBufferLoop()
    eng.flush_contract = FlushContract()
    eng.virtual["_flush"] = eng.flush_contract

    def v_filename(eng_, st, obj):
        f = z3.Select(st.g["NodeFile"], Val.addr(obj.term))
        return [(st, Z(f, "str", {"plain": True}))]

    def v_is_buffered(eng_, st, obj):
        cn = obj.meta["registered_of"]
        bobj = z3.Select(st.g["NodeBuf"], Val.addr(obj.term))
        bctx = as_int(st.rec(st.statics[(cn, "_buffer_context")]).fields["_count"])
        return [(st, Bv(z3.Or(bobj > 0, bctx > 0)))]

    eng.virtual_attrs["_filename"] = v_filename
    eng.virtual_attrs["_is_buffered"] = v_is_buffered
