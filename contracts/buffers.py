"""Buffer tier: abstract vocabulary over the concrete buffer statics, contracts of _flush_buffer and of _flush on
a collection of unknown identity (virtual), buffered cases of _load / _save."""
import z3

from pyvc import smt
from pyvc.smt import Val, VNone, VAbsent, VRef, VInt, IntS, BoolS, F, pyeq
from pyvc.values import Z, Bv, Iv, Const, ObjV, ClassV, TupleV, Raise, Unsupported, to_val, as_int
from pyvc.contracts import Contract, Case
from pyvc import builtins_spec as bs
from pyvc import scene as sc
from pyvc.buffer_spec import K_CONTENTS, K_HASH, K_METADATA, K_MODIFIED
from pyvc.stdlib_spec import json_loads, bytes_decode, md5_hex, encode
from pyvc.loops import plain_len
from contracts import core

truthy = F("truthy", Val, BoolS)


class Buf:
    """Accessors of the buffer state of concrete class `cname` in a State."""
    def __init__(self, eng, st, cname):
        self.eng, self.st, self.cname = eng, st, cname
        self.strategy = sc.strategy(eng.P.classes[cname])
        self.ba = Val.addr(st.statics[(cname, "_buffer")].term)
        self.ra = Val.addr(st.statics[(cname, "_buffered_collections")].term)

    @property
    def B(self):
        return self.st.sel("Cell", self.ba)

    @property
    def reg(self):
        return self.st.sel("Cell", self.ra)

    @property
    def size(self):
        return as_int(self.st.statics[(self.cname, "_CURRENT_BUFFER_SIZE")])

    @property
    def cap(self):
        return as_int(self.st.statics[(self.cname, "_BUFFER_CAPACITY")])

    def has(self, f):
        return bs.dict_has(self.B, f)

    def entry_addr(self, f):
        return Val.addr(bs.dict_get(self.B, f))

    def entry(self, f):
        return self.st.sel("Cell", self.entry_addr(f))

    def field(self, f, key):
        return bs.dict_get(self.entry(f), key)

    def wellformed(self, f):
        e = self.entry(f)
        keys = (K_CONTENTS, K_HASH, K_METADATA) if self.strategy == "serialized" else (K_CONTENTS, K_METADATA, K_MODIFIED)
        ref = bs.dict_get(self.B, f)
        return z3.And(smt.is_VRef(ref), Val.addr(ref) > 1000, Val.addr(ref) != self.ba, Val.addr(ref) != self.ra,
                      *[bs.dict_has(e, k) for k in keys])

    def modified(self, f):
        return Val.b(self.field(f, K_MODIFIED))

    def changed(self, f):
        """The buffered copy differs from what was read from disk when the entry was created."""
        if self.strategy == "serialized":
            return md5_hex(self.field(f, K_CONTENTS)) != self.field(f, K_HASH)
        return self.modified(f)

    def contrib(self, f):
        if self.strategy == "serialized":
            return z3.If(self.has(f), plain_len(self.field(f, K_CONTENTS)), 0)
        return z3.If(z3.And(self.has(f), self.modified(f)), 1, 0)

    def logical(self, f):
        """L(cls, f): what a buffered read of file f sees."""
        if self.strategy == "serialized":
            return z3.If(self.has(f), json_loads(bytes_decode(self.field(f, K_CONTENTS))), self.st.sel("Res", f))
        c = self.field(f, K_CONTENTS)
        return z3.If(self.has(f), self.st.sel("CView", Val.addr(c)), self.st.sel("Res", f))
