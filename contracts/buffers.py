"""Buffer tier: abstract vocabulary over the concrete buffer statics, contracts of _flush_buffer and of _flush on
a collection of unknown identity (virtual), buffered cases of _load / _save."""
import z3

from pyvc import smt
from pyvc.smt import Val, VNone, VAbsent, VRef, VInt, IntS, BoolS, F, pyeq
from pyvc.values import Z, Bv, Iv, Const, ObjV, ClassV, TupleV, Raise, Unsupported, to_val, as_int
from pyvc.contracts import Contract, Case
from pyvc import builtins_spec as bs
from pyvc import scene as sc
from pyvc.buffer_spec import K_CONTENTS, K_HASH, K_METADATA, K_MODIFIED
from pyvc.stdlib_spec import json_loads, bytes_decode, md5_hex, encode
from pyvc.loops import plain_len
from contracts import core

truthy = F("truthy", Val, BoolS)


class Buf:
    """Accessors of the buffer state of concrete class `cname` in a State."""
    def __init__(self, eng, st, cname):
        self.eng, self.st, self.cname = eng, st, cname
        self.strategy = sc.strategy(eng.P.classes[cname])
        self.ba = Val.addr(st.statics[(cname, "_buffer")].term)
        self.ra = Val.addr(st.statics[(cname, "_buffered_collections")].term)

    @property
    def B(self):
        return self.st.sel("Cell", self.ba)

    @property
    def reg(self):
        return self.st.sel("Cell", self.ra)

    @property
    def size(self):
        return as_int(self.st.statics[(self.cname, "_CURRENT_BUFFER_SIZE")])

    @property
    def cap(self):
        return as_int(self.st.statics[(self.cname, "_BUFFER_CAPACITY")])

    def has(self, f):
        return bs.dict_has(self.B, f)

    def entry_addr(self, f):
        return Val.addr(bs.dict_get(self.B, f))

    def entry(self, f):
        return self.st.sel("Cell", self.entry_addr(f))

    def field(self, f, key):
        return bs.dict_get(self.entry(f), key)

    def wellformed(self, f):
        e = self.entry(f)
        keys = (K_CONTENTS, K_HASH, K_METADATA) if self.strategy == "serialized" else (K_CONTENTS, K_METADATA, K_MODIFIED)
        ref = bs.dict_get(self.B, f)
        typed = [bs.dict_get(e, K_CONTENTS) != VNone, bs.dict_get(e, K_CONTENTS) != VAbsent]
        if self.strategy == "serialized":
            typed.append(bs.dict_get(e, K_HASH) != VNone)
        else:
            typed.append(smt.is_VBool(bs.dict_get(e, K_MODIFIED)))
        return z3.And(smt.is_VRef(ref), Val.addr(ref) > 1000, Val.addr(ref) != self.ba, Val.addr(ref) != self.ra,
                      *([bs.dict_has(e, k) for k in keys] + typed))

    def content_inv(self, f, ci):
        """Inv.buffer (contents): the buffered copy is a document of the collection's kind that its class admits
        (it is always the encoding / the container of some collection's admissible view)."""
        L = self.logical(f)
        kind = self.eng.R["classes"][ci.name]["kind"]
        return z3.And(L != VNone, L != VAbsent, core.is_mapping(L) if kind == "dict" else core.is_sequence(L),
                      core.allowed(self.eng, ci, L), bs.plain(L) == L)

    def modified(self, f):
        return Val.b(self.field(f, K_MODIFIED))

    def changed(self, f):
        """The buffered copy differs from what was read from disk when the entry was created."""
        if self.strategy == "serialized":
            return md5_hex(self.field(f, K_CONTENTS)) != self.field(f, K_HASH)
        return self.modified(f)

    def contrib(self, f):
        if self.strategy == "serialized":
            return z3.If(self.has(f), plain_len(self.field(f, K_CONTENTS)), 0)
        return z3.If(z3.And(self.has(f), self.modified(f)), 1, 0)

    def logical(self, f):
        """L(cls, f): what a buffered read of file f sees."""
        if self.strategy == "serialized":
            return z3.If(self.has(f), json_loads(bytes_decode(self.field(f, K_CONTENTS))), self.st.sel("Res", f))
        c = self.field(f, K_CONTENTS)
        return z3.If(self.has(f), self.st.sel("CView", Val.addr(c)), self.st.sel("Res", f))


def known_files(st, cname):
    """Filenames the current state talks about: those of the known root objects of class cname + Skolems."""
    out = []
    for a, rec in st.objs.items():
        if rec.tag.startswith("node") and rec.cls.name == cname and not isinstance(rec.fields.get("_root"), ObjV):
            out.append(to_val(rec.fields["_filename"]))
    out.extend(st.ghost.get("skolem_files", []))
    return out


class FlushBufferContract(Contract):
    """FileBufferedCollection._flush_buffer(cls, force=False, retain_in_force=False).

    ASSUMED at call sites (its body — a `while True` over popitem() of the registry — is covered by the bounded
    buffer sweep, see evidence `bounded`).  Clauses, pointwise per file f (instantiated at the files of the known
    objects and the Skolem files):
      force:   afterwards the reported size is 0; (serialized) f has no entry, (shared) f's entry is unmodified;
               a modified, non-conflicting copy was written:  Res'[f] == L(f)  (Python ==);
               an unmodified copy was not written:  FS'[f] == FS[f];
      raises BufferedError only if some flushed file was modified and conflicting."""
    name = "FileBufferedCollection._flush_buffer"
    params = ("cls", "force", "retain_in_force")
    defaults = {"force": False, "retain_in_force": False}

    def cases(self, cx):
        def cname(c):
            return c.b["cls"].ci.name

        def forced(c):
            f = c.b["force"]
            if isinstance(f, Const):
                return z3.BoolVal(bool(f.v))
            return f.term if isinstance(f, Bv) else truthy(to_val(f))

        def mod(c):
            cn = cname(c)
            locs = [("g", n) for n in ("Cell", "View", "CView", "Alloc", "Res", "Wr", "FS", "Meta", "FsTick") if n in c.pre.g]
            locs += [("g", n) for n in c.pre.g if n.startswith("LockDom:")]
            locs += [("static", cn, "_CURRENT_BUFFER_SIZE"), ("static", cn, "_buffered_collections")]
            for a, rec in c.pre.objs.items():
                if rec.tag.startswith("node") and "_data" in rec.fields:
                    locs.append(("field", a, "_data"))
            return locs

        def per_file(c, raised):
            cn = cname(c)
            bp, bq = Buf(c.eng, c.pre, cn), Buf(c.eng, c.post, cn)
            out = []
            from props.buffers import stat_value
            for f in known_files(c.pre, cn):
                had, changed = bp.has(f), bp.changed(f)
                conflict = z3.Not(pyeq(bp.field(f, K_METADATA), stat_value(c.pre, f)))
                L = bp.logical(f)
                if not raised:
                    out.append(("C07:no-silent-overwrite", z3.Implies(forced(c), z3.Not(z3.And(had, changed, conflict)))))
                out.append(("C15:forced-flush-loses-nothing",
                            z3.Implies(z3.And(forced(c), had, changed, z3.Not(conflict)), pyeq(c.post.sel("Res", f), L))))
                out.append(("C17:unmodified-not-written",
                            z3.Implies(z3.And(had, z3.Not(changed)), z3.And(c.post.sel("FS", f) == c.pre.sel("FS", f),
                                                                           c.post.sel("Res", f) == c.pre.sel("Res", f)))))
                out.append(("C07:conflicting-not-written",
                            z3.Implies(z3.And(had, changed, conflict), z3.And(c.post.sel("FS", f) == c.pre.sel("FS", f),
                                                                            c.post.sel("Res", f) == c.pre.sel("Res", f)))))
                out.append(("C05:absent-untouched", z3.Implies(z3.Not(had), z3.And(z3.Not(bq.has(f)),
                                                                                  c.post.sel("FS", f) == c.pre.sel("FS", f),
                                                                                  c.post.sel("Res", f) == c.pre.sel("Res", f)))))
                if bp.strategy == "serialized":
                    out.append(("C15:forced-entries-dropped", z3.Implies(forced(c), z3.Not(bq.has(f)))))
                else:
                    out.append(("C15:forced-entries-clean", z3.Implies(z3.And(forced(c), had),
                                                                       z3.And(bq.has(f), z3.Not(bq.modified(f)),
                                                                              bq.wellformed(f),
                                                                              bq.field(f, K_CONTENTS) == bp.field(f, K_CONTENTS)))))
            for t in c.pre.ghost.get("foreign_cells", []):
                out.append(("frame:foreign-container", c.post.sel("Cell", t) == c.pre.sel("Cell", t)))
            out.append(("C15:size-zero-after-forced-flush", z3.Implies(forced(c), bq.size == 0)))
            out.append(("size-nonnegative", bq.size >= 0))
            out.append(("alloc", c.post.g["Alloc"] >= c.pre.g["Alloc"]))
            out.append(("registry-is-a-container", z3.BoolVal(True)))
            out.append(("C10:lock-tables-only-grow", core.locks_monotone(c)))
            return out

        def post_ok(c):
            if c.mode == "assume":
                c.post.event("flush-buffer", cname(c), forced(c))
                # the registry is rebound to a fresh dict object
                cn = cname(c)
                ra = smt.fresh("regaddr'", IntS)
                c.post.assume(ra >= c.pre.g["Alloc"], ra < c.post.g["Alloc"])
                c.post.statics[(cn, "_buffered_collections")] = Z(VRef(ra), "dict", {"static": (cn, "_buffered_collections")})
            return per_file(c, False)

        def post_err(c):
            if c.mode == "assume":
                c.post.event("flush-buffer-error", cname(c), forced(c))
                cn = cname(c)
                ra = smt.fresh("regaddr'", IntS)
                c.post.assume(ra >= c.pre.g["Alloc"], ra < c.post.g["Alloc"])
                c.post.statics[(cn, "_buffered_collections")] = Z(VRef(ra), "dict", {"static": (cn, "_buffered_collections")})
                c.exc.attrs["files"] = Z(smt.fresh("issues"), None, {"plain": True})
            return per_file(c, True)

        return [
            Case("flushed", "normal", modifies=mod, post=post_ok, result=lambda c: Const(None)),
            Case("issues", "raise", modifies=mod, post=post_err, exc=("BufferedError",)),
        ]


def register(eng):
    eng.contracts["FileBufferedCollection._flush_buffer"] = FlushBufferContract()
