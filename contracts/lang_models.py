"""Python-semantics models of the two comprehensions the constructors / extend use (PEP 202 / 274: a comprehension is
its explicit loop).  They are NOT repository code: they exist so that the LIFTED contract of `_from_base`
(`SyncedCollection._from_base.map`, used wherever the real code writes such a comprehension) is itself proved from the
per-element contract by the loop rule instead of being a paper step.  What stays trusted is only that

    [recv._from_base(data=v, parent=p) for v in xs]          behaves as  _comp_list(recv, xs, p)
    {k: recv._from_base(data=v, parent=p) for k, v in m.items()}    as  _comp_dict(recv, m, p)
"""
import ast

SOURCE = '''
def _comp_list(recv, xs, parent):
    out = []
    for value in xs:
        out.append(recv._from_base(data=value, parent=parent))
    return out


def _comp_dict(recv, m, parent):
    out = {}
    for key, value in m.items():
        out[key] = recv._from_base(data=value, parent=parent)
    return out
'''


def functions(eng):
    """-> {name: FuncInfo} for the models, placed in the module of SyncedCollection (for name resolution)."""
    from pyvc.extract import FuncInfo
    mod = eng.P.classes["SyncedCollection"].module
    tree = ast.parse(SOURCE)
    return {n.name: FuncInfo(n.name, n, mod) for n in tree.body if isinstance(n, ast.FunctionDef)}
