import json, os, tempfile, threading, time
from synced_collections.backends.collection_json import *
from synced_collections.errors import *
d=tempfile.mkdtemp()
def fn(n): return os.path.join(d,n)
def rd(p): return json.load(open(p))
def t(name, f):
    try: print(name, '->', f())
    except Exception as e: print(name, 'EXC', type(e).__name__, e)
def c10b():
    a=JSONDict(fn('a.json')); b=JSONDict(fn('a.json')); a['x']=1
    a.filename=fn('b.json')
    b['y']=2
    return rd(fn('a.json'))
t('C10 filename setter', c10b)
def c10c():
    a=JSONDict(fn('a2.json')); a['x']={}
    ch=a['x']
    a.filename=fn('b2.json')
    ch['y']=2
    return rd(fn('b2.json'))
t('C10 filename setter child', c10c)
for C in (BufferedJSONDict, MemoryBufferedJSONDict):
    def c07n(C=C):
        p=fn('m_%s.json'%C.__name__); q=fn('n_%s.json'%C.__name__)
        a=C(p); a['x']=1; b=C(q); b['x']=1
        try:
            with C.buffer_backend():
                b['y']=2
                try:
                    with C.buffer_backend():   # nested inner
                        with a.buffered:
                            a['y']=2
                            time.sleep(0.01)
                            json.dump({'ext':1,'pad':'xxxxxxxxxxxx'}, open(p,'w'))
                except Exception as e: print('  inner', type(e).__name__)
                b['z']=3
        except Exception as e: print('  outer', type(e).__name__, e)
        return rd(p), rd(q), C.get_current_buffer_size(), len(C._buffer), len(C._buffered_collections), b()
    t('C07 nested '+C.__name__, c07n)
    def c07p(C=C):
        # per-object context conflict inside backend context: error path of _flush_buffer loses registrations?
        p=fn('m2_%s.json'%C.__name__); q=fn('n2_%s.json'%C.__name__)
        a=C(p); a['x']=1; b=C(q); b['x']=1
        with C.buffer_backend():
            b['y']=2
            try:
                C._flush_buffer  # noop
                with a.buffered:
                    pass
            except Exception as e: print(' e',e)
        return rd(q), C.get_current_buffer_size(), len(C._buffer)
    t('C07p '+C.__name__, c07p)
    def c07s(C=C):
        # set_buffer_capacity forced flush with a conflict while others remain buffered
        p=fn('m3_%s.json'%C.__name__); q=fn('n3_%s.json'%C.__name__)
        a=C(p); a['x']=1; b=C(q); b['x']=1
        cap=C.get_buffer_capacity()
        try:
            with C.buffer_backend():
                a['y']=2; b['y']=2
                time.sleep(0.01)
                json.dump({'ext':1,'pad':'xxxxxxxxxxxx'}, open(p,'w'))
                try:
                    C.set_buffer_capacity(0)
                except BufferedError as e: print('  forced', list(map(os.path.basename,e.files)))
                b['z']=3
        except Exception as e: print('  outer', type(e).__name__, e)
        finally: C.set_buffer_capacity(cap)
        return rd(p), rd(q), C.get_current_buffer_size(), len(C._buffer), len(C._buffered_collections), b()
    t('C07 forced '+C.__name__, c07s)
