import json, os, tempfile, time
from synced_collections.backends.collection_json import *
from synced_collections.errors import *
d=tempfile.mkdtemp()
C=MemoryBufferedJSONDict
p=os.path.join(d,'a.json'); a=C(p); a['x']=1
ctx=C._buffer_context
print('before', C.get_buffer_capacity(), ctx._original_buffer_capacitys, ctx._count)
try:
    with C.buffer_backend(5):
        print(' inside', C.get_buffer_capacity(), ctx._original_buffer_capacitys, ctx._count)
        a['y']=2
        time.sleep(0.01); json.dump({'ext':1,'pad':'xxxxxxxxxxxx'}, open(p,'w'))
except BufferedError as e: print(' BufferedError')
print('after', C.get_buffer_capacity(), ctx._original_buffer_capacitys, ctx._count, C.get_current_buffer_size(), len(C._buffer), len(C._buffered_collections))
# next use of the context
with C.buffer_backend():
    pass
print('after 2nd ctx', C.get_buffer_capacity(), ctx._original_buffer_capacitys)
