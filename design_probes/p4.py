import json, os, tempfile, warnings
warnings.simplefilter('ignore')
from synced_collections.backends.collection_json import *
from synced_collections.errors import *
d=tempfile.mkdtemp()
def fn(n): return os.path.join(d,n)
def rd(p): return json.load(open(p))
def t(name, f):
    try: print(name, '->', f())
    except Exception as e: print(name, 'EXC', type(e).__name__, e)
import time
for C in (BufferedJSONDict, MemoryBufferedJSONDict):
    def cap(C=C):
        p=fn('c_%s.json'%C.__name__); a=C(p); a['x']=1
        cap0=C.get_buffer_capacity()
        try:
            with C.buffer_backend(5):
                a['y']=2
                time.sleep(0.01); json.dump({'ext':1,'pad':'xxxxxxxxxxxx'}, open(p,'w'))
        except BufferedError as e: print('  BufferedError')
        r=(cap0, C.get_buffer_capacity(), C._buffer_context._original_buffer_capacitys, C.get_current_buffer_size(), len(C._buffer))
        C.set_buffer_capacity(cap0); C._buffer_context._original_buffer_capacitys.clear()
        return r
    t('C15 capacity restore after error '+C.__name__, cap)
    def nested(C=C):
        p=fn('d_%s.json'%C.__name__); q=fn('e_%s.json'%C.__name__)
        a=C(p); a['x']=1; b=C(q); b['x']=1
        try:
            with b.buffered:
                b['y']=2
                try:
                    with C.buffer_backend():
                        a['y']=2; b['w']=5
                        time.sleep(0.01); json.dump({'ext':1,'pad':'xxxxxxxxxxxx'}, open(p,'w'))
                except BufferedError: print('  inner BufferedError')
        except Exception as e: print('  outer', type(e).__name__, e)
        return rd(q), C.get_current_buffer_size(), len(C._buffer), len(C._buffered_collections)
    t('C07 nested-remaining-lost '+C.__name__, nested)
try:
    import numpy as np
    from synced_collections.validators import json_format_validator, _json_format_validator_type_resolver as R
    class MyArr(np.ndarray): pass
    z=np.array(5).view(MyArr); o=np.array([1,2]).view(MyArr)
    def fresh():
        R.type_map.clear()
    fresh(); 
    def tryv(x):
        try: json_format_validator(x); return 'ok'
        except Exception as e: return type(e).__name__
    r1=tryv(o); fresh(); tryv(z); r2=tryv(o)
    print('C19 ndarray subclass: fresh', r1, '; after 0-d warmup', r2)
except ImportError: print('no numpy')
