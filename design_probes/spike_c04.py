"""Throwaway spike: C01/C03/C04 obligations for __setitem__ and clear(), root vs nested receiver,
hand-encoded with the protocol-tier vocabulary of DESIGN.md (view, res, put_in, sub_of, dict_set, pyeq)."""
import z3, time
V=z3.DeclareSort('Val'); N=z3.DeclareSort('Node')
pyeq=z3.Function('pyeq',V,V,z3.BoolSort())
put_in=z3.Function('put_in',V,N,V,V)      # put_in(rootval, node, newsub)
sub_of=z3.Function('sub_of',V,N,V)        # sub_of(rootval, node)
dict_set=z3.Function('dict_set',V,V,V,V); empty=z3.Const('EMPTY_DICT',V)
r,s=z3.Consts('r s',N); key,val=z3.Consts('key val',V)
res0=z3.Const('res0',V)                   # resource content at call time
vr0,vs0=z3.Consts('view_r_stale view_s_stale',V)   # in-memory views before the call (possibly stale)
a,b,c,d=z3.Consts('a b c d',V)
AX=[ z3.ForAll([a],pyeq(a,a)), z3.ForAll([a,b],pyeq(a,b)==pyeq(b,a)),
     z3.ForAll([a,b,c],z3.Implies(z3.And(pyeq(a,b),pyeq(b,c)),pyeq(a,c))),
     z3.ForAll([a,b],put_in(a,r,b)==b), z3.ForAll([a],sub_of(a,r)==a),           # root position
     # congruence of the spec operations under python equality
     z3.ForAll([a,b,c,d],z3.Implies(z3.And(pyeq(a,b),pyeq(c,d)),pyeq(put_in(a,s,c),put_in(b,s,d)))),
     z3.ForAll([a,b,c,d],z3.Implies(pyeq(a,b),pyeq(dict_set(a,c,d),dict_set(b,c,d)))) ]
def check(name, recv, hyps, goal):
    sol=z3.Solver(); sol.set('timeout',10000); sol.add(*AX); sol.add(*hyps); sol.add(z3.Not(goal))
    t=time.time(); res=sol.check()
    print(f'{name:62s} {str(res):6s} {1000*(time.time()-t):5.0f} ms')
for recv,label in ((r,'root'),(s,'nested')):
    # --- __setitem__: _load (susp=0) gives view(r)~res0 and, for an attached handle, view(self)~sub_of(res0,self)
    vr1,vs1=z3.Consts('vr1 vs1',V)
    loaded=[pyeq(vr1,res0), pyeq(vs1,sub_of(res0,recv))] + ([vs1==vr1] if recv is r else [])
    vs2=dict_set(vs1,key,val)                               # body: forwarded built-in op (naturality)
    vr2=put_in(vr1,recv,vs2)                                # [L-COMP]
    resF=vr2                                                # __exit__: _save with susp=0
    check(f'__setitem__/{label}/C01:stored', recv, loaded, resF==vr2)
    check(f'__setitem__/{label}/C04:applied-to-current-content', recv, loaded,
          pyeq(vr2, put_in(res0,recv,dict_set(sub_of(res0,recv),key,val))))
    # --- clear() as on the pinned tree: no load; self._data = {}; save
    vs2=empty; vr2=put_in(vr0,recv,vs2)
    stale=[vs0==vr0] if recv is r else []
    check(f'clear (pinned: no load)/{label}/C01:stored', recv, stale, vr2==vr2)
    check(f'clear (pinned: no load)/{label}/C04:applied-to-current-content', recv, stale,
          pyeq(vr2, put_in(res0,recv,empty)))
    # --- clear() inside _load_and_save
    vr2=put_in(vr1,recv,empty)
    check(f'clear (inside _load_and_save)/{label}/C04:applied-to-current-content', recv, loaded,
          pyeq(vr2, put_in(res0,recv,empty)))
