import json, os, tempfile, threading, time
from synced_collections.backends.collection_json import *
from synced_collections.data_types.synced_dict import SyncedDict
from synced_collections.data_types.synced_collection import SyncedCollection
d=tempfile.mkdtemp()
def fn(n): return os.path.join(d,n)
def rd(p): return json.load(open(p))
# D5: list reset stale tail in memory buffer
x=MemoryBufferedJSONList(fn('l.json')); x.extend([1,2,3])
with x.buffered:
    x[0]          # load into buffer
    x.reset([9])
    r=x()
print('D5 mem list reset after load ->', r, rd(fn('l.json')))
# D16: reader paused inside _update, writer completes
p=fn('r.json'); x=JSONDict(p); x['a']=1
orig=SyncedDict._update
in_upd=threading.Event(); go=threading.Event()
def patched(self, data=None, _validate=False):
    if threading.current_thread().name=='reader' and not in_upd.is_set():
        in_upd.set(); go.wait(5)
    return orig(self, data, _validate)
SyncedDict._update=patched
res={}
def reader(): res['r']=x.get('a')
def writer():
    in_upd.wait(5); x['k']=1; res['w']='done'; go.set()
tr=threading.Thread(target=reader,name='reader'); tw=threading.Thread(target=writer,name='writer')
tr.start(); tw.start(); tr.join(); tw.join()
SyncedDict._update=orig
print('D16 reader/writer ->', res, 'file:', rd(p), ' (serial outcomes all contain k)')
# D10: clear vs setitem
p=fn('c.json'); x=JSONDict(p); x['old']=1
origsave=SyncedCollection._save
at_save=threading.Event(); go2=threading.Event()
def psave(self):
    if threading.current_thread().name=='clearer' and not at_save.is_set():
        at_save.set(); go2.wait(5)
    return origsave(self)
SyncedCollection._save=psave
def clearer(): x.clear()
def setter():
    at_save.wait(5); x['a']=1; go2.set()
t1=threading.Thread(target=clearer,name='clearer'); t2=threading.Thread(target=setter,name='setter')
t1.start(); t2.start(); t1.join(); t2.join()
SyncedCollection._save=origsave
print('D10 clear||setitem -> file', rd(p), ' serial outcomes: {a:1} or {}')
# D12: deadlock clear (collection->buffer) vs setitem (buffer->collection) in buffered class
C=BufferedJSONDict
p=fn('dl.json'); x=C(p); x['o']=1
from synced_collections.buffers.buffered_collection import BufferedCollection
origs=BufferedCollection._save
a_has_coll=threading.Event(); b_has_buf=threading.Event()
def psave2(self):
    if threading.current_thread().name=='A':
        a_has_coll.set(); b_has_buf.wait(5)   # A holds collection lock (clear: with self._thread_lock: self._save())
    return origs(self)
BufferedCollection._save=psave2
from synced_collections.buffers import file_buffered_collection as fb
orig_enter=fb._BufferedLoadAndSave.__enter__
def penter(self):
    self._collection._buffer_lock.__enter__()
    if threading.current_thread().name=='B':
        b_has_buf.set()
    fb._LoadAndSave.__enter__(self)
fb._BufferedLoadAndSave.__enter__=penter
done=[]
def A():
    with x.buffered: pass
    with C.buffer_backend():
        x.clear()
    done.append('A')
def B():
    a_has_coll.wait(5)
    x['b']=1; done.append('B')
with C.buffer_backend():
    tA=threading.Thread(target=A,name='A',daemon=True); tB=threading.Thread(target=B,name='B',daemon=True)
    tA.start(); tB.start(); tA.join(3); tB.join(3)
    print('D12 deadlock? alive:', tA.is_alive(), tB.is_alive(), done)
os._exit(0)
