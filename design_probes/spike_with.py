"""Throwaway spike: path-splitting symbolic execution of REAL function ASTs from /repo for the
ghost pair (lock depth, suspend count), PEP-343 `with` incl. exceptional exits, try/finally,
callees by contract. Obligation: depth' == depth on every exit (C10a)."""
import ast, sys, z3, time, copy
SRC={}
def load(path):
    t=ast.parse(open(path).read())
    for n in ast.walk(t):
        if isinstance(n,ast.ClassDef):
            for f in n.body:
                if isinstance(f,ast.FunctionDef): SRC[f'{n.name}.{f.name}']=f
load('/repo/synced_collections/data_types/synced_collection.py')
load('/repo/synced_collections/data_types/synced_dict.py')
load('/repo/synced_collections/data_types/synced_list.py')
def src(e): return ast.unparse(e)
class St:
    def __init__(s, depth, susp, pc=(), trace=()): s.depth=depth; s.susp=susp; s.pc=list(pc); s.trace=list(trace)
    def fork(s, cond=None, note=None):
        n=St(s.depth,s.susp,s.pc,s.trace)
        if cond is not None: n.pc.append(cond)
        if note: n.trace.append(note)
        return n
fresh=[0]
def fb(name): fresh[0]+=1; return z3.Bool(f'{name}_{fresh[0]}')
# callee contracts, keyed by the *source text of the call* after resolving the receiver role
def call(text, st):
    """returns list of (state, 'normal'|'raise')"""
    if text.endswith('_thread_lock.__enter__()'):
        n=st.fork(note='lock.enter'); n.depth=st.depth+1; return [(n,'normal')]
    if '_thread_lock.__exit__(' in text:
        n=st.fork(note='lock.exit'); n.depth=st.depth-1; return [(n,'normal')]
    if text.endswith('._load()') or text.endswith('._save()') or '_validate(' in text or text.startswith('del self._data[') \
       or '_data.pop(' in text or '_data.popitem(' in text or '_data.remove(' in text or '_data.insert(' in text:
        b=fb('raises'); return [(st.fork(z3.Not(b),text+' ok'),'normal'),(st.fork(b,text+' RAISES'),'raise')]
    return [(st.fork(note=text),'normal')]        # pure / total in this ghost projection
def enter_cm(expr, st):
    t=src(expr)
    if t=='self._load_and_save':   return run(SRC['_LoadAndSave.__enter__'], st)
    if t=='self._suspend_sync':    n=st.fork(note='susp+1'); n.susp=st.susp+1; return [(n,'normal')]
    if t=='self._thread_lock':     return call('self._thread_lock.__enter__()', st)
    raise NotImplementedError(t)
def exit_cm(expr, st):
    t=src(expr)
    if t=='self._load_and_save':   return run(SRC['_LoadAndSave.__exit__'], st)
    if t=='self._suspend_sync':    n=st.fork(note='susp-1'); n.susp=st.susp-1; return [(n,'normal')]
    if t=='self._thread_lock':     return call('self._thread_lock.__exit__(None)', st)
    raise NotImplementedError(t)
def stmts(body, st):
    outs=[(st,'normal')]
    for s in body:
        nxt=[]
        for (x,o) in outs:
            if o!='normal': nxt.append((x,o)); continue
            nxt+=stmt(s,x)
        outs=nxt
    return outs
def stmt(s, st):
    if isinstance(s,ast.Expr) and isinstance(s.value,ast.Constant): return [(st,'normal')]
    if isinstance(s,(ast.Expr,ast.Assign,ast.Delete,ast.AugAssign)):
        # evaluate embedded calls left-to-right (innermost first); enough for this projection
        calls=[n for n in ast.walk(s) if isinstance(n,ast.Call)]
        texts=[src(c) for c in reversed(calls)] or []
        if isinstance(s,ast.Delete): texts.append(src(s))
        outs=[(st,'normal')]
        for t in texts:
            outs=[r for (x,o) in outs for r in (call(t,x) if o=='normal' else [(x,o)])]
        return outs
    if isinstance(s,ast.Return):
        return [(x,'return' if o=='normal' else o) for (x,o) in (stmt(ast.Expr(s.value),st) if s.value else [(st,'normal')])]
    if isinstance(s,ast.Pass): return [(st,'normal')]
    if isinstance(s,ast.If):
        c=fb('cond'); return stmts(s.body, st.fork(c,'if '+src(s.test)))+stmts(s.orelse, st.fork(z3.Not(c),'else '+src(s.test)))
    if isinstance(s,ast.Try) and not s.handlers:
        res=[]
        for (x,o) in stmts(s.body,st):
            for (y,o2) in stmts(s.finalbody,x):
                res.append((y, o if o2=='normal' else o2))
        return res
    if isinstance(s,ast.With):
        def go(items, st):
            if not items: return stmts(s.body, st)
            first,rest=items[0],items[1:]
            res=[]
            for (x,o) in enter_cm(first.context_expr, st):
                if o!='normal': res.append((x,'raise')); continue      # __enter__ raised: __exit__ is NOT called
                for (y,o2) in go(rest,x):
                    for (z,o3) in exit_cm(first.context_expr, y):      # __exit__ runs on every outcome
                        res.append((z, o2 if o3 in('normal','return') else o3))
            return res
        return go(s.items, st)
    raise NotImplementedError(type(s).__name__)
def run(fn, st): 
    return [(x,'normal' if o=='return' else o) for (x,o) in stmts(fn.body, st)]
def verify(qual):
    d0=z3.Int('depth0'); s0=z3.Int('susp0')
    t=time.time(); bad=[]; n=0
    for (x,o) in run(SRC[qual], St(d0,s0,[d0>=0,s0>=0])):
        n+=1
        s=z3.Solver(); s.add(*x.pc); s.add(z3.Or(x.depth!=d0, x.susp!=s0))
        if s.check()==z3.sat: bad.append((o,x.trace))
    print(f'{qual:32s} paths={n:3d}  balance(depth,susp) on every exit: {"DISCHARGED" if not bad else "FAILED"}  {1000*(time.time()-t):.0f} ms')
    for o,tr in bad[:1]: print('     failing path (exit=%s):'%o, ' ; '.join(tr))
for q in ['SyncedCollection.__delitem__','SyncedDict.__setitem__','SyncedDict.pop','SyncedDict.setdefault','SyncedDict.clear','SyncedList.insert','SyncedList.remove','SyncedList.__iadd__']:
    verify(q)
