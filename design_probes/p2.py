import json, os, tempfile, threading, traceback, time
from synced_collections.backends.collection_json import *
from synced_collections.errors import *
d=tempfile.mkdtemp()
def fn(n): return os.path.join(d,n)
def rd(p): return json.load(open(p))
def t(name, f):
    try: print(name, '->', f())
    except Exception as e: print(name, 'EXC', type(e).__name__, e)
for C in (BufferedJSONDict, MemoryBufferedJSONDict):
    def c06(C=C):
        p=fn('i_%s.json'%C.__name__)
        a=C(p); a['x']=1
        b=C(p)
        with C.buffer_backend():
            b['x']; a['x']; b['y']=2
            rb=b(); 
        return rd(p), C.get_current_buffer_size(), len(C._buffer), a(), b()
    t('C06 '+C.__name__, c06)
    def c06p(C=C):
        p=fn('ip_%s.json'%C.__name__)
        a=C(p); a['x']=1
        b=C(p)
        with a.buffered, b.buffered:
            b['x']; a['x']; b['y']=2
        return rd(p), C.get_current_buffer_size(), len(C._buffer), a(), b()
    t('C06 per-object '+C.__name__, c06p)
    def c07(C=C):
        p=fn('m_%s.json'%C.__name__); q=fn('n_%s.json'%C.__name__)
        a=C(p); a['x']=1; b=C(q); b['x']=1
        try:
            with C.buffer_backend():
                a['y']=2; b['y']=2
                time.sleep(0.01)
                json.dump({'ext':1,'pad':'xxxxxxxxxxxx'}, open(p,'w'))
        except BufferedError as e:
            print('  BufferedError files', list(e.files))
        return rd(p), rd(q), C.get_current_buffer_size(), len(C._buffer), len(C._buffered_collections), a(), b()
    t('C07 '+C.__name__, c07)
    def c15(C=C):
        p=fn('s_%s.json'%C.__name__)
        a=C(p); a['x']=1
        cap=C.get_buffer_capacity()
        with C.buffer_backend(1):
            a['y']=2
            s=C.get_current_buffer_size()
            a['z']=3
            s2=C.get_current_buffer_size()
        return s, s2, C.get_current_buffer_size(), cap==C.get_buffer_capacity(), rd(p)
    t('C15 '+C.__name__, c15)
# C16
def c16():
    x=JSONDict(fn('o.json')); v={'a':[1,{'b':[2]}]}
    x['k']=v; v['a'][1]['b'].append(3); v['a'].append(9)
    r=x(); r['k']['a'].append(5)
    vs=list(x.values()); vs[0]['a'].append(7)
    p=x.pop('k'); 
    return x(), rd(fn('o.json')), type(p)
t('C16', c16)
def c16b():
    x=JSONDict(fn('o2.json')); x['k']={'a':[1]}
    p=x.pop('k'); p['a'].append(2); p['z']=1
    return x(), rd(fn('o2.json')), type(p)
t('C16 pop then mutate', c16b)
def c16c():
    x=JSONDict(fn('o3.json')); x['k']={'a':[1]}
    x['j']=x['k']; x['j']['a'].append(2)
    return x()
t('C16 assign child', c16c)
# C17
def c17():
    p=fn('q.json'); x=JSONDict(p)
    x.get('a'); len(x); list(x); x(); x==1; repr(x)
    return os.path.exists(p)
t('C17 missing file', c17)
def c17b():
    out=[]
    for C in (BufferedJSONDict, MemoryBufferedJSONDict):
        p=fn('r_%s.json'%C.__name__); x=C(p); x['a']={'b':1}
        st=os.stat(p)
        with x.buffered: x['a']['b']; len(x)
        with C.buffer_backend(): x(); 
        st2=os.stat(p); out.append((st.st_ino==st2.st_ino, st.st_mtime_ns==st2.st_mtime_ns))
    return out
t('C17 buffered', c17b)
# C18
def c18():
    x=JSONAttrDict(fn('u.json'))
    x['_data']=5
    return x(), type(x._data), x['_data']
t('C18 _data item', c18)
def c18b():
    x=BufferedJSONAttrDict(fn('u2.json'))
    x['a']={'b':[{'c':1}]}
    return [type(x.a).__name__, type(x.a.b).__name__, type(x.a.b[0]).__name__], x.a.b[0].c
t('C18 family', c18b)
def c18c():
    x=JSONAttrDict(fn('u3.json'))
    res={}
    for k in ['keys','_lock_id','_thread_lock','_cls_lock','_locks','_threading_support_is_active','_is_buffered','_backend']:
        try:
            setattr(x,k,1); res[k]=(x().get(k), )
        except Exception as e: res[k]=type(e).__name__
    return res
t('C18 names', c18c)
# C12
def c12():
    x=JSONDict(fn('v.json')); v={'':{'':[True,1,1.0,2**70,None,'퟿\U0001f600\n\\"',[],{}]}}
    x['k']=v
    y=JSONDict(fn('v.json'))()
    return y['k']==v, [type(e).__name__ for e in y['k'][''][''] ]
t('C12', c12)
# C19
def c19():
    from synced_collections.validators import require_string_key, json_format_validator
    from collections.abc import Sequence
    class S(Sequence):
        def __init__(s, v): s.v=v
        def __getitem__(s,i): return s.v[i]
        def __len__(s): return len(s.v)
    return require_string_key([{1:2}])
t('C19/C11 require_string_key list', c19)
