import z3, time
S=z3.StringSort()
fwd=z3.DatatypeSort('Val')
V=z3.Datatype('Val')
V.declare('VNone'); V.declare('VAbsent')
V.declare('VScalar',('sid',z3.IntSort()))
V.declare('VDict',('m',z3.ArraySort(S,fwd)))
V.declare('VList',('a',z3.ArraySort(z3.IntSort(),fwd)),('n',z3.IntSort()))
V.declare('VNode',('nid',z3.IntSort()),('isd',z3.BoolSort()),('body',fwd))
V=V.create()
view=z3.Function('view',V,V); pyeq=z3.Function('pyeq',V,V,z3.BoolSort())
def container(x): return z3.Or(V.is_VDict(x),V.is_VList(x))
def plain(x):   # a plain JSON value: no node at top; view is identity
    return z3.And(z3.Not(V.is_VNode(x)), z3.Not(V.is_VAbsent(x)), view(x)==x)
def ax_view(x): # one-level facts about view, instantiated at term x
    return z3.And(
        z3.Implies(V.is_VNode(x), z3.And(z3.Implies(V.isd(x),V.is_VDict(view(x))), z3.Implies(z3.Not(V.isd(x)),V.is_VList(view(x))))),
        z3.Implies(z3.Not(V.is_VNode(x)), view(x)==x))
def ax_pyeq(a,b):
    return z3.And(
        pyeq(a,b)==pyeq(b,a),
        z3.Implies(a==b, pyeq(a,b)),
        z3.Implies(V.is_VNone(b), pyeq(a,b)==(a==b)),
        z3.Implies(V.is_VNone(a), pyeq(a,b)==(a==b)),
        z3.Implies(z3.And(container(a), z3.Not(container(b))), z3.Not(pyeq(a,b))),
        z3.Implies(z3.And(V.is_VDict(a), V.is_VList(b)), z3.Not(pyeq(a,b))))
# state at loop head
items0=z3.Array('items0',S,V); items=z3.Array('items',S,V); data=z3.Array('data',S,V)
k0=z3.String('k0'); key=z3.String('key'); vis0=z3.Bool('vis0')
nv=z3.Select(data,key); ex=z3.Select(items,key)
def Inv(items_, vis_):
    it=z3.Select(items_,k0); dv=z3.Select(data,k0)
    return z3.And(z3.Implies(vis_, z3.And(z3.Not(V.is_VAbsent(it)), pyeq(view(it),dv))),
                  z3.Implies(z3.Not(vis_), it==z3.Select(items0,k0)))
base=[Inv(items,vis0), z3.Not(V.is_VAbsent(nv)), plain(nv),
      z3.Implies(key==k0, z3.Not(vis0)),          # dict keys are visited once
      ax_view(ex), ax_view(nv), ax_pyeq(nv, view(ex)), ax_pyeq(view(ex), nv)]
def from_base(x, name):
    r=z3.Const(name,V)
    return r, z3.And(z3.Implies(container(x), z3.And(V.is_VNode(r), view(r)==x)), z3.Implies(z3.Not(container(x)), r==x), ax_view(r))
def check(name, pathcond, items_after, extra=[]):
    s=z3.Solver(); s.set('timeout',10000)
    s.add(*base); s.add(*pathcond); s.add(*extra)
    vis1=z3.Or(vis0, key==k0)
    it=z3.Select(items_after,k0)
    s.add(ax_view(it), ax_pyeq(view(it), z3.Select(data,k0)))
    s.add(z3.Not(Inv(items_after, vis1)))
    t=time.time(); r=s.check(); dt=time.time()-t
    print(f'{name:55s} {str(r):7s} {dt*1000:6.1f} ms')
    if r==z3.sat:
        m=s.model()
        print('     model: key==k0:', m.eval(key==k0), ' existing:', m.eval(ex), ' new_value:', m.eval(nv))
    return r
isnode=V.is_VNode(ex)
# P1 KeyError -> store from_base
n1,c1=from_base(nv,'n1')
check('P1 key absent -> assign', [V.is_VAbsent(ex)], z3.Store(items,key,n1), [c1])
# P2 equal -> continue
check('P2 new_value == existing -> continue', [z3.Not(V.is_VAbsent(ex)), pyeq(nv, view(ex))], items)
# P3 child update, per callee contract
ex2=z3.Const('ex2',V)
def child_update(guard_none):
    for label, cond, post, normal in [
        ('None: no-op, returns',        V.is_VNone(nv),                                          ex2==ex, True),
        ('kind matches: updated',       z3.Or(z3.And(V.is_VDict(nv),V.isd(ex)), z3.And(V.is_VList(nv),z3.Not(V.isd(ex)))), z3.And(V.is_VNode(ex2), V.nid(ex2)==V.nid(ex), V.isd(ex2)==V.isd(ex), pyeq(view(ex2),nv)), True),
        ('kind mismatch: ValueError',   z3.And(z3.Not(V.is_VNone(nv)), z3.Not(z3.Or(z3.And(V.is_VDict(nv),V.isd(ex)), z3.And(V.is_VList(nv),z3.Not(V.isd(ex)))))), ex2==ex, False)]:
        pc=[z3.Not(V.is_VAbsent(ex)), z3.Not(pyeq(nv,view(ex))), isnode, cond, post, ax_view(ex2)]
        if guard_none:
            if label.startswith('None'):
                # fixed code: child _update is not attempted for None -> falls through to replace
                n3,c3=from_base(nv,'n3'); check('P3[fixed] '+label+' -> replaced', pc[:4], z3.Store(items,key,n3), [c3]); continue
        if normal:
            check(('P3[fixed] ' if guard_none else 'P3 ')+label+' -> continue', pc, z3.Store(items,key,ex2))
        else:
            n4,c4=from_base(nv,'n4'); check(('P3[fixed] ' if guard_none else 'P3 ')+label+' -> replace', pc, z3.Store(items,key,n4), [c4])
print('--- pinned code'); child_update(False)
# P4 existing scalar, differs -> replace
n5,c5=from_base(nv,'n5')
check('P4 existing scalar, differs -> replace', [z3.Not(V.is_VAbsent(ex)), z3.Not(pyeq(nv,view(ex))), z3.Not(isnode)], z3.Store(items,key,n5), [c5])
print('--- with the node->None path guarded'); child_update(True)
