import json, os, tempfile, threading
from synced_collections.backends.collection_json import *
d=tempfile.mkdtemp()
def fn(n): return os.path.join(d,n)
def rd(p): return json.load(open(p))
p=fn('c.json'); x=JSONDict(p); x['old']=1
origprop=JSONDict._thread_lock
at=threading.Event(); go=threading.Event()
def getter(self):
    if threading.current_thread().name=='clearer' and not at.is_set():
        at.set(); go.wait(5)
    return origprop.fget(self)
JSONDict._thread_lock=property(getter)
def clearer(): x.clear()
def setter():
    at.wait(5); x['a']=1; go.set()
t1=threading.Thread(target=clearer,name='clearer'); t2=threading.Thread(target=setter,name='setter')
t1.start(); t2.start(); t1.join(); t2.join()
JSONDict._thread_lock=origprop
print('D10 clear||setitem -> file', rd(p), ' serial outcomes: {a:1} or {}')
# list pop (mixin): v=self[i]; del self[i]  -- two holds
l=JSONList(fn('l.json')); l.extend([1,2])
from synced_collections.data_types.synced_collection import SyncedCollection
orig_del=SyncedCollection.__delitem__
at2=threading.Event(); go2=threading.Event()
def pdel(self,key):
    if threading.current_thread().name=='popper' and not at2.is_set():
        at2.set(); go2.wait(5)
    return orig_del(self,key)
SyncedCollection.__delitem__=pdel
res={}
def popper(): res['pop']=l.pop()
def ins():
    at2.wait(5); l.append(3); go2.set()
t1=threading.Thread(target=popper,name='popper'); t2=threading.Thread(target=ins,name='ins')
t1.start(); t2.start(); t1.join(); t2.join()
print('D10b pop||append ->', res, rd(fn('l.json')), ' serial: pop=2,[1,3] or pop=3,[1,2]')
