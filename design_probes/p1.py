import json, os, tempfile, threading, traceback
from synced_collections.backends.collection_json import *
d=tempfile.mkdtemp()
def fn(n): return os.path.join(d,n)
def rd(p): return json.load(open(p))
def t(name, f):
    try: print(name, '->', f())
    except Exception as e: print(name, 'EXC', type(e).__name__, e)
# C02 container->null
def c02():
    x=JSONDict(fn('a.json')); x['k']={'a':1}
    json.dump({'k':None}, open(fn('a.json'),'w'))
    return x()
t('C02 container->null', c02)
def c02b():
    x=JSONList(fn('b.json')); x.append([1]); 
    json.dump([None], open(fn('b.json'),'w'))
    return x()
t('C02 list container->null', c02b)
# C03 lt
t('C03 [1]<[2]', lambda: JSONList(fn('c.json'), data=[1]) < [2])
# C04 nested clear clobbers
def c04():
    x=JSONDict(fn('e.json')); x['a']={'p':1}; x['b']=1
    ch=x['a']
    y=JSONDict(fn('e.json')); y['b']=2
    ch.clear()
    return rd(fn('e.json'))
t('C04 nested clear', c04)
def c04b():
    x=JSONDict(fn('e2.json')); x['a']={'p':1}; x['b']=1
    ch=x['a']
    y=JSONDict(fn('e2.json')); y['b']=2
    ch.reset({'q':1})
    return rd(fn('e2.json'))
t('C04 nested reset', c04b)
def c04c():
    x=JSONDict(fn('e3.json')); x['a']=1
    y=JSONDict(fn('e3.json')); y['b']=2
    x.reset({'q':1})
    return rd(fn('e3.json'))
t('C04 root reset (destructive, ok)', c04c)
# C05
def c05():
    x=MemoryBufferedJSONDict(fn('f.json')); x['a']=1
    with x.buffered:
        x['b']=2
        x.clear()
        r=x()
    return r, rd(fn('f.json'))
t('C05 mem clear', c05)
def c05b():
    x=MemoryBufferedJSONList(fn('g.json')); x.extend([1,2,3])
    with x.buffered:
        x.reset([9])
        r=x()
    return r, rd(fn('g.json'))
t('C05 mem list reset', c05b)
def c05c():
    x=MemoryBufferedJSONList(fn('h.json')); x.extend([1,2,3])
    with MemoryBufferedJSONList.buffer_backend():
        with x.buffered:
            x.append(4)
    return rd(fn('h.json'))
t('C05 memlist nested ctx', c05c)
def c05d():
    x=BufferedJSONDict(fn('f2.json')); x['a']=1
    with x.buffered:
        x['b']=2
        x.clear()
        r=x()
    return r, rd(fn('f2.json'))
t('C05 ser clear', c05d)
# C06
def c06():
    a=BufferedJSONDict(fn('i.json')); a['x']=1
    b=BufferedJSONDict(fn('i.json'))
    with BufferedJSONDict.buffer_backend():
        b['y']=2     # b touches first
        a['x']       # a reads only
    return rd(fn('i.json')), BufferedJSONDict.get_current_buffer_size(), len(BufferedJSONDict._buffer)
t('C06 ser', c06)
def c06b():
    a=BufferedJSONDict(fn('i2.json')); a['x']=1
    b=BufferedJSONDict(fn('i2.json'))
    with BufferedJSONDict.buffer_backend():
        a['x']       # a reads only
        b['y']=2     
    return rd(fn('i2.json')), BufferedJSONDict.get_current_buffer_size()
t('C06 ser order2', c06b)
def c06c():
    a=MemoryBufferedJSONDict(fn('i3.json')); a['x']=1
    b=MemoryBufferedJSONDict(fn('i3.json'))
    with MemoryBufferedJSONDict.buffer_backend():
        a['x']
        b['y']=2
    return rd(fn('i3.json')), MemoryBufferedJSONDict.get_current_buffer_size()
t('C06 mem', c06c)
# C10 lock leak
def c10():
    x=JSONDict(fn('j.json')); x['a']=1
    open(fn('j.json'),'w').write('{bad')
    try: x['b']=2
    except Exception as e: print('  first exc', type(e).__name__)
    json.dump({}, open(fn('j.json'),'w'))
    res=[]
    def w():
        y=JSONDict(fn('j.json'))
        lk=JSONDict._locks[fn('j.json')]
        got=lk.acquire(timeout=1); res.append(got)
        if got: lk.release()
    th=threading.Thread(target=w); th.start(); th.join()
    return res
t('C10 lock leak', c10)
# C11
def c11():
    x=JSONAttrDict(fn('k.json')); x['l']=[]
    x['l'].append({'a.b':1})
    return rd(fn('k.json'))
t('C11 attrlist dot', c11)
def c11b():
    x=JSONAttrDict(fn('k2.json'))
    x.update({'l':[{'a.b':1}]})
    return rd(fn('k2.json'))
t('C11 update dot', c11b)
def c11c():
    x=JSONDict(fn('k3.json'))
    x['l']=[{1:2}]
    return rd(fn('k3.json'))
t('C11 nonstr key in list JSONDict', c11c)
