"""SMT vocabulary of pyvc: the value sort, uninterpreted operation symbols, solver helpers.

One sort `Val` (DESIGN.md 3.1).  Built-in container operations are uninterpreted symbols over `Val`
(trusted specification [SPEC-BUILTIN]); the plain view of in-memory containers commutes with them
([N-VIEW]); Python `==` is `canon(a) == canon(b)` for an uninterpreted `canon`, which makes it an
equivalence for free, and every operation symbol is a homomorphism for it (congruence, instantiated
per occurring term by `closure_axioms`).
"""
import os
import time
import z3

z3.set_param("model.compact", False)

# ---------------------------------------------------------------------------------------------
Val = z3.Datatype("Val")
_ValRef = z3.DatatypeSort("Val")
Val.declare("VNone")
Val.declare("VAbsent")
Val.declare("VBool", ("b", z3.BoolSort()))
Val.declare("VInt", ("i", z3.IntSort()))
Val.declare("VStr", ("s", z3.StringSort()))
Val.declare("VFloat", ("fid", z3.IntSort()))
Val.declare("VRef", ("addr", z3.IntSort()))
Val.declare("VDict", ("dm", z3.ArraySort(z3.StringSort(), _ValRef)))
Val.declare("VList", ("la", z3.ArraySort(z3.IntSort(), _ValRef)), ("ln", z3.IntSort()))
Val.declare("VOpaque", ("tid", z3.IntSort()), ("oid", z3.IntSort()))
Val = Val.create()

VNone, VAbsent = Val.VNone, Val.VAbsent
VBool, VInt, VStr, VFloat, VRef, VDict, VList, VOpaque = (
    Val.VBool, Val.VInt, Val.VStr, Val.VFloat, Val.VRef, Val.VDict, Val.VList, Val.VOpaque)
is_VNone, is_VAbsent, is_VBool, is_VInt, is_VStr, is_VFloat, is_VRef, is_VDict, is_VList, is_VOpaque = (
    Val.is_VNone, Val.is_VAbsent, Val.is_VBool, Val.is_VInt, Val.is_VStr, Val.is_VFloat, Val.is_VRef,
    Val.is_VDict, Val.is_VList, Val.is_VOpaque)

IntS, BoolS, StrS = z3.IntSort(), z3.BoolSort(), z3.StringSort()
ArrIV = z3.ArraySort(IntS, Val)
ArrII = z3.ArraySort(IntS, IntS)
ArrVV = z3.ArraySort(Val, Val)
ArrVI = z3.ArraySort(Val, IntS)
ArrVB = z3.ArraySort(Val, BoolS)

_fresh_counter = [0]


def fresh(prefix, sort=Val):
    _fresh_counter[0] += 1
    return z3.Const(f"{prefix}!{_fresh_counter[0]}", sort)


def reset_fresh():
    _fresh_counter[0] = 0


# ---------------------------------------------------------------------------------------------
# uninterpreted symbols, by name
_FUNCS = {}
OPS = {}          # name -> (func, arg kinds) for operation symbols subject to canon-homomorphism


def F(name, *sorts):
    """Uninterpreted function symbol `name : sorts[:-1] -> sorts[-1]` (cached)."""
    key = name
    if key not in _FUNCS:
        _FUNCS[key] = z3.Function(name, *sorts)
    f = _FUNCS[key]
    assert f.arity() == len(sorts) - 1, (name, sorts)
    return f


def OP(name, nargs, ret=Val):
    """An operation symbol over Val^n (built-in container operation, or a spec function)."""
    f = F(name, *([Val] * nargs), ret)
    OPS[name] = f
    return f


canon = F("canon", Val, Val)            # Python ==  is  canon(a) == canon(b)


def pyeq(a, b):
    return canon(a) == canon(b)


# type ids -----------------------------------------------------------------------------------
TYPE_IDS = {}


def tid_of(name):
    if name not in TYPE_IDS:
        TYPE_IDS[name] = len(TYPE_IDS) + 1
    return TYPE_IDS[name]


tyof = F("tyof", Val, IntS)                       # type(v)
inst = F("inst", IntS, IntS, BoolS)               # issubclass(t, T)
ClsOf = F("ClsOf", IntS, IntS)                    # concrete class of the heap object at an address


def isinstance_(v, tname):
    return inst(tyof(v), z3.IntVal(tid_of(tname)))


# ---------------------------------------------------------------------------------------------
class Solver:
    """Thin wrapper: check validity of  assumptions => goal  by refutation."""

    def __init__(self, timeout_ms=10000, seed=0):
        self.timeout_ms = timeout_ms
        self.seed = seed
        self.stats = {"queries": 0, "time": 0.0, "max": 0.0, "unknown": 0,
                      "cvc5_checked": 0, "cvc5_unsat": 0, "cvc5_unknown": 0, "cvc5_error": 0, "cvc5_disagree": 0,
                      "cvc5_time": 0.0}
        # second back end (thorough tier): every k-th VC that z3 refutes is re-checked by /usr/bin/cvc5
        self.cvc5_budget = int(os.environ.get("PYVC_CVC5", "0") or 0)
        self.cvc5_every = max(1, int(os.environ.get("PYVC_CVC5_EVERY", "1") or 1))
        self._n_unsat = 0

    def _mk(self):
        s = z3.Solver()
        s.set("timeout", self.timeout_ms)
        s.set("random_seed", self.seed)
        return s

    def check_sat(self, formulas):
        s = self._mk()
        for f in formulas:
            s.add(f)
        t = time.time()
        r = s.check()
        dt = time.time() - t
        self.stats["queries"] += 1
        self.stats["time"] += dt
        self.stats["max"] = max(self.stats["max"], dt)
        if r == z3.unknown:
            self.stats["unknown"] += 1
        return r, (s.model() if r == z3.sat else None), s

    def feasible(self, formulas):
        r, _, _ = self.check_sat(formulas)
        return r != z3.unsat

    def prove(self, assumptions, goal):
        """-> ('unsat'|'sat'|'unknown', model, smt2 text producer)"""
        r, m, s = self.check_sat(list(assumptions) + [z3.Not(goal)])
        if r == z3.unsat and self.cvc5_budget > 0:
            self._n_unsat += 1
            if self._n_unsat % self.cvc5_every == 0:
                self.cvc5_budget -= 1
                self.cross_check(s)
        return ("unsat" if r == z3.unsat else "sat" if r == z3.sat else "unknown"), m, s

    def cross_check(self, s):
        """Re-check one refuted VC with cvc5 (SMT-LIB dump of the z3 solver; `'` in generated names is not a legal
        SMT-LIB symbol character and is rewritten).  A `sat` answer is a solver disagreement."""
        import re
        import subprocess
        import tempfile
        txt = re.sub(r"(?<=[A-Za-z0-9_~])'(?=[!A-Za-z0-9_ )\n])", "_p", s.to_smt2())
        f = tempfile.NamedTemporaryFile("w", suffix=".smt2", delete=False)
        f.write("(set-logic ALL)\n" + txt)
        f.close()
        t = time.time()
        try:
            out = subprocess.run(["/usr/bin/cvc5", "--strings-exp", "--dt-nested-rec", "--tlimit=20000", f.name],
                                 capture_output=True, text=True, timeout=40)
            res = out.stdout.strip().split("\n")[0] if out.stdout.strip() else "error"
        except Exception:
            res = "error"
        finally:
            os.unlink(f.name)
        self.stats["cvc5_time"] += time.time() - t
        self.stats["cvc5_checked"] += 1
        key = {"unsat": "cvc5_unsat", "unknown": "cvc5_unknown", "sat": "cvc5_disagree"}.get(res, "cvc5_error")
        self.stats[key] += 1


def subterms(exprs):
    seen = set()
    stack = list(exprs)
    while stack:
        e = stack.pop()
        i = e.get_id()
        if i in seen:
            continue
        seen.add(i)
        yield e
        if z3.is_app(e):
            stack.extend(e.children())
        elif z3.is_quantifier(e):
            stack.append(e.body())


def and_(xs):
    xs = list(xs)
    if not xs:
        return z3.BoolVal(True)
    return z3.And(*xs) if len(xs) > 1 else xs[0]


def or_(xs):
    xs = list(xs)
    if not xs:
        return z3.BoolVal(False)
    return z3.Or(*xs) if len(xs) > 1 else xs[0]


# [E-UUID] names the program already holds (file names of collections): a name derived from a fresh uuid4 is none of them
known_name = F("known_name", Val, BoolS)
