"""Buffer tier: modelling of the class-level buffer statics and of the few extra primitives the buffer code uses.

Concrete model (the REAL statics, not ghosts — DESIGN.md 3.3):
   C._buffer                : a built-in dict cell   filename -> reference to an ENTRY cell
   entry cell               : a built-in dict cell   {'contents', 'hash', 'metadata', 'modified'}
   C._buffered_collections  : a built-in dict cell   id -> collection reference
   C._CURRENT_BUFFER_SIZE, C._BUFFER_CAPACITY : ints ;  C._buffer_context : a known _FileBufferedContext object
A dict display stored into C._buffer is boxed into a new cell (entries are mutated in place later on).
hashlib.md5 is modelled as the uninterpreted md5_hex with injectivity [E-MD5]."""
import z3

from . import smt
from .smt import Val, VNone, VAbsent, VRef, VInt, F, IntS, BoolS
from .values import (V, Z, Bv, Iv, Const, ObjV, TupleV, BuiltinV, Raise, Unsupported, to_val, as_int)
from . import builtins_spec as bs
from .stdlib_spec import md5_hex, FullIntrinsics

K_CONTENTS = smt.VStr(z3.StringVal("contents"))
K_HASH = smt.VStr(z3.StringVal("hash"))
K_METADATA = smt.VStr(z3.StringVal("metadata"))
K_MODIFIED = smt.VStr(z3.StringVal("modified"))


class Md5V(V):
    _n = 0

    def __init__(self):
        Md5V._n += 1
        self.key = "md5:%d" % Md5V._n


def install():
    I = FullIntrinsics
    base_setitem = I.setitem
    base_cell_op = I.cell_op
    base_value_attr = I.value_attr

    def b_hashlib_md5(self, eng, st, fn, args, kwargs):
        eng.note("[E-MD5]")
        m = Md5V()
        st.ghost[m.key] = None
        return [(st, m)]

    def value_attr(self, eng, st, obj, name):
        if isinstance(obj, Md5V):
            return [(st, BuiltinV("md5." + name, recv=obj))]
        return base_value_attr(self, eng, st, obj, name)

    def b_md5_update(self, eng, st, fn, args, kwargs):
        if st.ghost.get(fn.recv.key) is not None:
            raise Unsupported("md5.update called twice")
        st.ghost[fn.recv.key] = to_val(args[0])
        return [(st, Const(None))]

    def b_md5_hexdigest(self, eng, st, fn, args, kwargs):
        b = st.ghost.get(fn.recv.key)
        if b is None:
            raise Unsupported("md5.hexdigest without data")
        return [(st, Z(md5_hex(b), "str", {"plain": True}))]

    def cell_op(self, st, ref, kind, opname, args):
        static = ref.meta.get("static")
        if static is not None and static[1] == "_buffer" and opname == "setitem":
            # C._buffer[filename] = {...}: box the display into a new entry cell
            val = args[1]
            if isinstance(val, Z) and val.hint is None and val.meta.get("fresh_container"):
                a = smt.fresh("entry", IntS)
                st.assume(a >= st.g["Alloc"])
                st.g["Alloc"] = a + 1
                st.upd("Cell", a, val.term)
                st.event("entry-created", static[0], to_val(args[0]), a, dict(val.meta.get("items", {})))
                # the new entry dict is a built-in container that belongs to no collection tree [A-TREE]
                st.ghost["frame_cells"] = list(st.ghost.get("frame_cells", [])) + [a]
                # a shared-memory entry holds the collection's own container: remember which node it belongs to
                args = [args[0], Z(VRef(a), "dict", {"entry_of": (static[0], to_val(args[0]))})]
        if (static is not None and static[1] == "_buffer") or ref.meta.get("entry_of") is not None:
            # an access to the shared buffer state (the class's _buffer dict or one of its entries)
            st.event("buffer-access", (static or ref.meta.get("entry_of"))[0], opname)
        outs = base_cell_op(self, st, ref, kind, opname, args)
        if static is not None and opname in ("getitem",):
            fixed = []
            for (x, r) in outs:
                if isinstance(r, Z) and static[1] == "_buffer":
                    r = Z(r.term, "dict", dict(r.meta, entry_of=(static[0], to_val(args[0]))))
                    # Inv.buffer: entries are well-formed (every key the strategy uses is present); proved where
                    # entries are created (_initialize_data_in_buffer)
                    from contracts.buffers import Buf
                    x.assume(Buf(self.eng, x, static[0]).wellformed(to_val(args[0])))
                fixed.append((x, r))
            outs = fixed
        if ref.meta.get("entry_of") is not None and opname == "getitem":
            fixed = []
            for (x, r) in outs:
                if isinstance(r, Z) and isinstance(args[0], Const) and args[0].v == "contents":
                    cls_name = ref.meta["entry_of"][0]
                    info = self.eng.R["classes"].get(cls_name, {})
                    if info.get("isa", {}).get("SharedMemoryFileBufferedCollection"):
                        # shared memory: the buffered contents ARE a collection's container object
                        r = Z(r.term, info["kind"], dict(r.meta, shared_contents_of=ref.meta["entry_of"]))
                    else:
                        r = Z(r.term, "bytes", dict(r.meta, plain=True))
                elif isinstance(r, Z):
                    r = Z(r.term, None, dict(r.meta, plain=True))
                fixed.append((x, r))
            outs = fixed
        return outs

    base_set_static = I.set_static

    def set_static(self, eng, st, ci, name, val):
        if name == "_buffered_collections" and isinstance(val, Z) and val.hint is None and val.meta.get("fresh_container"):
            # cls._buffered_collections = <a dict built in a local>: the dict becomes an object of its own
            st.ghost["pre_box_state"] = st.copy()
            a = smt.fresh("regaddr'", IntS)
            st.assume(a >= st.g["Alloc"])
            st.g["Alloc"] = a + 1
            st.upd("Cell", a, val.term)
            val = Z(VRef(a), "dict", {"static": (ci.name, name)})
        return base_set_static(self, eng, st, ci, name, val)

    I.set_static = set_static
    I.b_hashlib_md5 = b_hashlib_md5
    I.b_md5_update = b_md5_update
    I.b_md5_hexdigest = b_md5_hexdigest
    I.value_attr = value_attr
    I.cell_op = cell_op


_MD5_CACHE = {}


def _md5_terms(f):
    k = f.get_id()
    hit = _MD5_CACHE.get(k)
    if hit is None:
        hit = (f, [e for e in smt.subterms([f]) if z3.is_app(e) and e.decl().name() == "md5_hex"])
        _MD5_CACHE[k] = hit
    return hit[1]


def buffer_axioms(formulas):
    """[E-MD5] no collisions: equal digests come from equal blobs."""
    ax = []
    hs = []
    seen = set()
    for f in formulas:
        if not z3.is_expr(f):
            continue
        for e in _md5_terms(f):
            if e.get_id() not in seen:
                seen.add(e.get_id())
                hs.append(e)
    for i in range(len(hs)):
        for j in range(i + 1, len(hs)):
            ax.append((hs[i] == hs[j]) == (hs[i].children()[0] == hs[j].children()[0]))
    return ax


install()
