"""Contract machinery of pyvc (DESIGN.md 2.2, 4).

A contract is a list of cases.  Each case has
    kind      'normal' | 'raise'
    guard     z3 Bool over the PRE state (when the case applies)
    modifies  locations that may change (everything else is framed: proved unchanged when the body is
              verified, kept unchanged when the contract is used at a call site)
    post      labelled clauses relating pre state, post state and the result / exception
The SAME case object is used in both directions:
    * call site  (`apply`):  assert requires; per case: havoc `modifies`, assume `post`
    * definition (`verify`): run the real body from a state satisfying requires; every resulting path must
      be covered by the guards of the cases of its kind, and for every case whose guard is compatible
      with the path each `post` clause and the frame are proved.
"""
import z3

from . import smt
from .smt import Val, IntS, BoolS
from .values import (Z, Bv, Iv, Const, ObjV, TupleV, KwV, ExcV, Raise, Unsupported, ClassV, to_val)


class Cx:
    """What a contract clause can see."""
    def __init__(self, eng, pre, post, b, mode):
        self.eng = eng
        self.pre = pre
        self.post = post
        self.b = b                # bound arguments: name -> V
        self.mode = mode          # 'assume' (call site) | 'prove' (definition)
        self.result = None        # V on normal exit
        self.exc = None           # ExcV on exceptional exit
        self.extra = {}

    def arg(self, n):
        return self.b[n]


class Case:
    def __init__(self, label, kind="normal", guard=None, modifies=None, post=None, exc=None, result=None):
        self.label = label
        self.kind = kind
        self.guard = guard or (lambda cx: z3.BoolVal(True))
        self.modifies = modifies or (lambda cx: [])
        self.post = post or (lambda cx: [])
        self.exc = exc            # tuple of exception class names (raise cases): class is a subclass of one of them
        self.result = result      # fn(cx) -> V  (call-site: how to make the result value; default fresh Val)


class Contract:
    name = None
    params = ()                   # positional parameter names incl. receiver
    defaults = {}
    tier = "protocol"
    pure = False

    def bind(self, args, kwargs):
        b = {}
        for p, a in zip(self.params, args):
            b[p] = a
        if len(args) > len(self.params):
            b["*args"] = args[len(self.params):]
        for k, v in kwargs.items():
            b[k] = v
        for p in self.params:
            if p not in b:
                if p in self.defaults:
                    b[p] = Const(self.defaults[p])
                else:
                    raise Unsupported(f"contract {self.name}: missing argument {p}")
        return b

    kwargs_domain = None      # None: any keyword; else the keyword names (besides `params`) the contract is stated for

    def covers(self, kwargs):
        if self.kwargs_domain is None:
            return True
        return all(k in self.params or k in self.kwargs_domain for k in kwargs)

    def requires(self, cx):
        return []

    def cases(self, cx):
        raise NotImplementedError

    # ------------------------------------------------------------------ call site
    def apply(self, eng, st, args, kwargs):
        b = self.bind(args, kwargs)
        cx0 = Cx(eng, st, st, b, "assume")
        for (label, r) in self.requires(cx0):
            st.event("requires", self.name, label, r)
        outs = []
        for case in self.cases(cx0):
            g = case.guard(cx0)
            for (x, side) in eng.fork(st.copy(), g, ("contract", self.name, case.label)):
                if not side:
                    continue
                pre = x.copy()
                cx = Cx(eng, pre, x, b, "assume")
                havoc(eng, x, case.modifies(cx))
                if case.kind == "normal":
                    cx.result = case.result(cx) if case.result else Z(smt.fresh("ret_" + self.name.split(".")[-1]))
                else:
                    e, cond = eng.mk_exc_sym(case.exc)
                    x.assume(cond)
                    cx.exc = e
                for (label, cl) in case.post(cx):
                    x.assume(cl)
                if not (getattr(self, "manages_cview", False) or case.label.startswith("buf-")):
                    # (cases that have CView in `modifies` frame it by their own post clauses)
                    resync_container_views(x, pre)
                x.event("contract", self.name, case.label)
                if not eng.feasible(x):
                    continue
                outs.append((x, cx.result if case.kind == "normal" else Raise(cx.exc)))
        return outs


def havoc_value(old, tag):
    if isinstance(old, Iv):
        return Iv(smt.fresh(tag, IntS))
    if isinstance(old, Bv):
        return Bv(smt.fresh(tag, BoolS))
    if isinstance(old, Z):
        return Z(smt.fresh(tag), old.hint, dict(old.meta))
    if isinstance(old, Const):
        if isinstance(old.v, bool):
            return Bv(smt.fresh(tag, BoolS))
        if isinstance(old.v, int):
            return Iv(smt.fresh(tag, IntS))
        return Z(smt.fresh(tag))
    raise Unsupported(f"cannot havoc {old!r}")


def havoc(eng, st, locs):
    for loc in locs:
        if loc[0] == "g":
            old = st.g[loc[1]]
            st.g[loc[1]] = smt.fresh(loc[1] + "'", old.sort())
        elif loc[0] == "g_at":
            old = st.g[loc[1]]
            st.g[loc[1]] = z3.Store(old, loc[2], smt.fresh(loc[1] + "@", old.sort().range()))
        elif loc[0] == "field":
            rec = st.objs[loc[1]]
            old = rec.fields[loc[2]]
            new = havoc_value(old, loc[2] + "'")
            if loc[2] == "_data" and isinstance(old, Z):
                # a re-pointed container reference still refers to some container object
                new = Z(smt.VRef(smt.fresh("d'", IntS)), old.hint, dict(old.meta))
                st.assume(Val.addr(new.term) > 1000)
            rec.fields[loc[2]] = new
        elif loc[0] == "static":
            key = (loc[1], loc[2])
            old = st.statics.get(key)
            st.statics[key] = havoc_value(old, loc[2] + "'") if old is not None else Z(smt.fresh(loc[2] + "'"))
        else:
            raise Unsupported("location " + repr(loc))


def resync_container_views(post, pre):
    """CView (plain view per container object) is a ghost derived from View: after a callee changed the views it
    is re-derived for the containers of the known nodes."""
    if "CView" not in post.g or "View" not in post.g:
        return
    if post.g["View"].eq(pre.g["View"]):
        return
    post.g["CView"] = smt.fresh("CView'", post.g["CView"].sort())
    for a, rec in post.objs.items():
        dv = rec.fields.get("_data")
        if rec.tag.startswith(("node", "new:")) and isinstance(dv, Z) and dv.hint in ("dict", "list"):
            post.assume(z3.Select(post.g["CView"], Val.addr(dv.term)) == z3.Select(post.g["View"], z3.IntVal(a)))
    # [A-TREE] containers registered as belonging to OTHER trees (the contents of other files' buffer entries) keep
    # their plain view when a callee changes this tree
    for (cond, t) in pre.ghost.get("other_tree_containers", []):
        post.assume(z3.Implies(cond, z3.Select(post.g["CView"], t) == z3.Select(pre.g["CView"], t)))


def same_value(a, b):
    """z3 Bool (or python bool) that two python-side values are equal."""
    if a is b:
        return True
    if type(a) is not type(b):
        if isinstance(a, (Iv, Const, Bv, Z)) and isinstance(b, (Iv, Const, Bv, Z)):
            try:
                return to_val(a) == to_val(b)
            except Unsupported:
                return False
        return False
    if isinstance(a, ObjV):
        return a.addr == b.addr
    if isinstance(a, (Z, Iv, Bv)):
        if a.term.eq(b.term):
            return True
        return a.term == b.term
    if isinstance(a, Const):
        return a.v == b.v and type(a.v) is type(b.v)
    if isinstance(a, TupleV):
        if len(a.items) != len(b.items):
            return False
        rs = [same_value(x, y) for x, y in zip(a.items, b.items)]
        if any(r is False for r in rs):
            return False
        rs = [r for r in rs if r is not True]
        return smt.and_(rs) if rs else True
    return a is b


def frame_obligations(eng, pre, post, mod):
    """Clauses stating that everything outside `mod` is unchanged between pre and post."""
    out = []
    gmod = {m[1] for m in mod if m[0] == "g"}
    gat = {}
    for m in mod:
        if m[0] == "g_at":
            gat.setdefault(m[1], []).append(m[2])
    for name, old in pre.g.items():
        new = post.g.get(name)
        if name in gmod or name == "CView":
            continue
        if new is None:
            continue
        if new.eq(old):
            continue
        if name in gat:
            t = old
            for idx in gat[name]:
                t = z3.Store(t, idx, z3.Select(new, idx))
            out.append((f"frame:{name}", new == t))
        else:
            out.append((f"frame:{name}", new == old))
    fmod = {(m[1], m[2]) for m in mod if m[0] == "field"}
    for a, rec in pre.objs.items():
        prec = post.objs.get(a)
        if prec is None:
            continue
        for f, old in rec.fields.items():
            if (a, f) in fmod:
                continue
            if f not in prec.fields:
                out.append((f"frame:field:{rec.tag or a}.{f}", z3.BoolVal(False)))
                continue
            r = same_value(old, prec.fields[f])
            if r is True:
                continue
            out.append((f"frame:field:{rec.tag or a}.{f}", z3.BoolVal(False) if r is False else r))
        for f in prec.fields:
            if f not in rec.fields and (a, f) not in fmod:
                out.append((f"frame:field-added:{rec.tag or a}.{f}", z3.BoolVal(False)))
    smod = {(m[1], m[2]) for m in mod if m[0] == "static"}
    for key, new in post.statics.items():
        if key in smod:
            continue
        old = pre.statics.get(key)
        if old is None:
            out.append((f"frame:static:{key[0]}.{key[1]}", z3.BoolVal(False)))
            continue
        r = same_value(old, new)
        if r is True:
            continue
        out.append((f"frame:static:{key[0]}.{key[1]}", z3.BoolVal(False) if r is False else r))
    return out
