"""Build an Engine for the current /repo tree: extraction + reflection cross-check + contracts."""
import json
import os
import subprocess
import sys

from . import extract, smt, symex, builtins_spec, stdlib_spec, buffer_spec

HERE = os.path.dirname(os.path.abspath(__file__))
VENV_PY = os.environ.get("PYVC_PYTHON", "/venv/bin/python")


class CheckerError(Exception):
    pass


_REFLECT_CACHE = {}


def reflect(repo):
    if repo in _REFLECT_CACHE:
        return _REFLECT_CACHE[repo]
    env = dict(os.environ, PYTHONPATH=repo)
    r = subprocess.run([VENV_PY, os.path.join(HERE, "reflect_repo.py")], env=env, capture_output=True, text=True,
                       timeout=120)
    if r.returncode != 0:
        raise CheckerError("reflection of the real package failed:\n" + r.stderr[-3000:])
    R = json.loads(r.stdout)
    _REFLECT_CACHE[repo] = R
    return R


_PROGRAM_CACHE = {}


def program(repo, R):
    if repo not in _PROGRAM_CACHE:
        _PROGRAM_CACHE[repo] = extract.Program(repo, stdlib_abc=R["stdlib_abc_file"])
    return _PROGRAM_CACHE[repo]


def crosscheck(P, R):
    """AST-derived class table vs the real package; a disagreement is a checker error, never a verdict."""
    problems = []
    for cname, info in R["classes"].items():
        ci = P.classes.get(cname)
        if ci is None:
            problems.append(f"class {cname} not found in the extracted sources")
            continue
        mine = [k.name for k in ci.mro]
        theirs = [n for n in info["mro"] if n != "Generic"]
        if mine != theirs:
            problems.append(f"MRO of {cname}: extracted {mine} != real {theirs}")
        for m, (q, kind) in info["resolve"].items():
            if q is None:
                continue
            owner, name = q.split(".")
            r = P.lookup_method(ci, name)
            if owner == "object" or owner not in P.classes:
                continue
            if name == "_thread_lock":
                continue
            if r is None:
                problems.append(f"{cname}.{name}: real class resolves to {q}, extraction finds nothing")
                continue
            got = r[2].name if isinstance(r, tuple) else r.cls.name
            if got != owner:
                problems.append(f"{cname}.{name}: real class resolves to {q}, extraction to {got}.{name}")
    for n, groups in R["shared_statics"].items():
        if groups:
            problems.append(f"statics {n} shared between classes {groups} (the model assumes one per concrete class)")
    if problems:
        raise CheckerError("extraction/reflection mismatch:\n  " + "\n  ".join(problems))


def make_engine(repo="/repo", threads=True, numpy=False, timeout_ms=10000, seed=0, register=True):
    R = reflect(repo)
    P = program(repo, R)
    crosscheck(P, R)
    solver = smt.Solver(timeout_ms=timeout_ms, seed=seed)
    eng = symex.Engine(P, R, solver, {"threads": threads, "numpy": numpy})
    stdlib_spec.FullIntrinsics(eng)
    eng.init_type_facts()
    sys.path.insert(0, os.path.dirname(HERE))
    from . import obligations
    eng.axiom_fn = obligations.closure_axioms
    obligations.set_synced_type_ids([c for c, ci in P.classes.items() if any(k.name == "SyncedCollection" for k in ci.mro)])
    if register:
        from contracts import core
        core.register(eng)
    return eng
