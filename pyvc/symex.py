"""pyvc symbolic executor: real function ASTs -> path states (DESIGN.md 2.3).

Statements return a list of (State, outcome) with outcome in
   None | ('return', V) | ('raise', ExcV) | ('break',) | ('continue',)
Expressions return a list of (State, V | Raise).
Callees with a contract are replaced by the contract; contract-less repo functions are inlined.
"""
import ast

import z3

from . import smt
from .smt import Val, VNone, VBool, VInt, VStr, VRef
from .values import (Z, Bv, Iv, Const, ObjV, FuncV, LambdaV, BoundV, ClassV, BuiltinV, ModuleV, SuperV, TupleV, KwV,
                     LockV, LocksTableV, ExcV, ResolverV, Raise, Unsupported, State, ObjRec, to_val, as_int)

MAX_INLINE_DEPTH = 12


class Engine:
    def __init__(self, program, reflect, solver, mode):
        """mode: dict(threads=bool, numpy=bool)"""
        self.P = program
        self.R = reflect
        self.solver = solver
        self.mode = mode
        self.contracts = {}        # qualname -> Contract  (exact function)
        self.virtual = {}          # method name -> Contract (receiver of unknown class)
        self.virtual_attrs = {}    # attribute name -> fn(eng, st, obj) for data attributes / properties of unknown nodes
        self.no_contract = set()   # qualnames whose contract is disabled (the function being verified)
        self.intr = None           # builtins_spec.Intrinsics, set by caller
        self.used_contracts = set()
        self.inlined = set()
        self.trusted = set()
        self.module_cache = {}
        self.hooks = []            # observers: hook(kind, st, **info)
        self.loop_specs = {}       # (function qualname, loop ordinal) -> loops.LoopSpec
        self.prover = None
        self.goal_prefix = ""

    def loop_goal(self, name, st, goal):
        if self.prover is None:
            raise Unsupported("loop obligation without a prover")
        self.prover.goal(f"{self.goal_prefix}/{name}", st, goal)

    # ------------------------------------------------------------------ helpers
    def note(self, label):
        self.trusted.add(label)

    def feasible(self, st):
        ax = self.axiom_fn(st.pc) if getattr(self, "axiom_fn", None) else []
        return self.solver.feasible(list(st.pc) + ax)

    def fork(self, st, cond, tag):
        """-> list of (state, bool) for the feasible sides of a symbolic branch."""
        if z3.is_true(cond):
            return [(st, True)]
        if z3.is_false(cond):
            return [(st, False)]
        cond = z3.simplify(cond)
        if z3.is_true(cond):
            return [(st, True)]
        if z3.is_false(cond):
            return [(st, False)]
        out = []
        a = st.copy()
        a.assume(cond)
        if self.feasible(a):
            a.trace.append((tag, True))
            out.append((a, True))
        b = st.copy()
        b.assume(z3.Not(cond))
        if self.feasible(b):
            b.trace.append((tag, False))
            out.append((b, False))
        return out

    def exc_type(self, name):
        return z3.IntVal(smt.tid_of(name))

    def mk_exc(self, name, **attrs):
        return ExcV(self.exc_type(name), attrs, label=name)

    def exc_universe(self):
        """All modelled exception classes (closed world [E-ABC])."""
        if not hasattr(self, "_exc_universe"):
            self._exc_universe = [c for c in self.P.classes.values() if any(k.name == "BaseException" for k in c.mro)]
        return self._exc_universe

    def exc_subclasses(self, names):
        names = set(names)
        return [c.name for c in self.exc_universe() if any(k.name in names for k in c.mro)]

    def exc_isinstance(self, exc, names):
        """z3 Bool: the exception is an instance of one of the named classes."""
        return smt.or_([exc.cls_term == z3.IntVal(smt.tid_of(n)) for n in self.exc_subclasses(names)])

    def mk_exc_sym(self, names, label=None):
        """An exception whose class is some (modelled) subclass of one of `names`."""
        e = ExcV(smt.fresh("exc", smt.IntS), label=label or "|".join(names))
        return e, smt.or_([e.cls_term == z3.IntVal(smt.tid_of(n)) for n in self.exc_subclasses(names)])

    def init_type_facts(self):
        self._subclass_facts = []

    # ------------------------------------------------------------------ truthiness / conversions
    def truthy(self, st, v):
        """-> list of (state, z3 Bool | python bool)"""
        if isinstance(v, Bv):
            return [(st, v.term)]
        if isinstance(v, Const):
            return [(st, z3.BoolVal(bool(v.v)))]
        if isinstance(v, Iv):
            return [(st, v.term != 0)]
        if isinstance(v, (TupleV,)):
            return [(st, z3.BoolVal(len(v.items) > 0))]
        if isinstance(v, KwV):
            return [(st, z3.BoolVal(len(v.d) > 0))]
        if isinstance(v, ObjV):
            rec = st.rec(v)
            m = self.P.lookup_method(rec.cls, "__bool__")
            if m is not None and not isinstance(m, tuple):
                outs = []
                for s2, r in self.call_function(s2 := st, m, [v], {}) if False else self.call_function(st, m, [v], {}):
                    if isinstance(r, Raise):
                        raise Unsupported("__bool__ raised")
                    outs.extend(self.truthy(s2, r))
                return outs
            m = self.P.lookup_method(rec.cls, "__len__")
            if m is not None and not isinstance(m, tuple):
                raise Unsupported(f"truthiness of {rec.cls.name} via __len__")
            return [(st, z3.BoolVal(True))]
        if isinstance(v, Z):
            return [(st, smt.F("truthy", Val, smt.BoolS)(v.term))]
        if isinstance(v, (FuncV, BoundV, ClassV, BuiltinV, LockV, LambdaV)):
            return [(st, z3.BoolVal(True))]
        raise Unsupported(f"truthiness of {v!r}")

    # ------------------------------------------------------------------ statements
    def run_block(self, body, st):
        outs = [(st, None)]
        for s in body:
            nxt = []
            for (x, o) in outs:
                if o is not None:
                    nxt.append((x, o))
                else:
                    nxt.extend(self.stmt(s, x))
            outs = nxt
            if not outs:
                break
        return outs

    def stmt(self, s, st):
        m = getattr(self, "s_" + type(s).__name__, None)
        if m is None:
            raise Unsupported(f"statement {type(s).__name__}")
        return m(s, st)

    def s_Pass(self, s, st):
        return [(st, None)]

    def s_Expr(self, s, st):
        if isinstance(s.value, ast.Constant):
            return [(st, None)]
        return [(x, ("raise", r.exc) if isinstance(r, Raise) else None) for (x, r) in self.ev(s.value, st)]

    def s_Return(self, s, st):
        if s.value is None:
            return [(st, ("return", Const(None)))]
        return [(x, ("raise", r.exc) if isinstance(r, Raise) else ("return", r)) for (x, r) in self.ev(s.value, st)]

    def s_Break(self, s, st):
        return [(st, ("break",))]

    def s_Continue(self, s, st):
        return [(st, ("continue",))]

    def s_Assign(self, s, st):
        outs = []
        for (x, r) in self.ev(s.value, st):
            if isinstance(r, Raise):
                outs.append((x, ("raise", r.exc)))
                continue
            cur = [(x, None)]
            for tgt in s.targets:      # a = b = value: left to right
                nxt = []
                for (y, o) in cur:
                    if o is not None:
                        nxt.append((y, o))
                    else:
                        nxt.extend(self.assign(tgt, r, y))
                cur = nxt
            outs.extend(cur)
        return outs

    def s_AnnAssign(self, s, st):
        if s.value is None:
            return [(st, None)]
        return self.s_Assign(ast.Assign(targets=[s.target], value=s.value), st)

    def s_AugAssign(self, s, st):
        # target op= value  ==>  evaluated as target = target op value with in-place semantics for list +=
        tgt = s.target
        load = _as_load(tgt)
        outs = []
        for (x, cur) in self.ev(load, st):
            if isinstance(cur, Raise):
                outs.append((x, ("raise", cur.exc)))
                continue
            for (y, rhs) in self.ev(s.value, x):
                if isinstance(rhs, Raise):
                    outs.append((y, ("raise", rhs.exc)))
                    continue
                for (z, res) in self.intr.inplace_binop(y, s.op, cur, rhs):
                    if isinstance(res, Raise):
                        outs.append((z, ("raise", res.exc)))
                    elif res is None:
                        outs.append((z, None))          # mutated in place, no rebinding needed
                    else:
                        outs.extend(self.assign(tgt, res, z))
        return outs

    def assign(self, tgt, val, st):
        if isinstance(tgt, ast.Name):
            st.loc[tgt.id] = val
            return [(st, None)]
        if isinstance(tgt, ast.Tuple):
            items = self.intr.unpack(st, val, len(tgt.elts))
            cur = [(st, None)]
            for t, v in zip(tgt.elts, items):
                nxt = []
                for (y, o) in cur:
                    nxt.extend(self.assign(t, v, y) if o is None else [(y, o)])
                cur = nxt
            return cur
        if isinstance(tgt, ast.Attribute):
            outs = []
            for (x, obj) in self.ev(tgt.value, st):
                if isinstance(obj, Raise):
                    outs.append((x, ("raise", obj.exc)))
                    continue
                outs.extend(self.setattr(x, obj, tgt.attr, val))
            return outs
        if isinstance(tgt, ast.Subscript) and isinstance(tgt.value, ast.Name) and self.intr.is_local_container(st, tgt.value.id):
            # a container created in this function and held only in a local: value semantics (rebind the local)
            outs = []
            for (y, key) in self.ev_slice(tgt.slice, st):
                if isinstance(key, Raise):
                    outs.append((y, ("raise", key.exc)))
                    continue
                y.loc[tgt.value.id] = self.intr.local_setitem(y, y.loc[tgt.value.id], key, val)
                outs.append((y, None))
            return outs
        if isinstance(tgt, ast.Subscript):
            outs = []
            for (x, obj) in self.ev(tgt.value, st):
                if isinstance(obj, Raise):
                    outs.append((x, ("raise", obj.exc)))
                    continue
                for (y, key) in self.ev_slice(tgt.slice, x):
                    if isinstance(key, Raise):
                        outs.append((y, ("raise", key.exc)))
                        continue
                    for (z, r) in self.intr.setitem(y, obj, key, val):
                        outs.append((z, ("raise", r.exc) if isinstance(r, Raise) else None))
            return outs
        raise Unsupported(f"assignment target {type(tgt).__name__}")

    def s_Delete(self, s, st):
        cur = [(st, None)]
        for tgt in s.targets:
            nxt = []
            for (x, o) in cur:
                if o is not None:
                    nxt.append((x, o))
                    continue
                if isinstance(tgt, ast.Subscript):
                    for (y, obj) in self.ev(tgt.value, x):
                        if isinstance(obj, Raise):
                            nxt.append((y, ("raise", obj.exc)))
                            continue
                        for (z, key) in self.ev_slice(tgt.slice, y):
                            if isinstance(key, Raise):
                                nxt.append((z, ("raise", key.exc)))
                                continue
                            for (w, r) in self.intr.delitem(z, obj, key):
                                nxt.append((w, ("raise", r.exc) if isinstance(r, Raise) else None))
                elif isinstance(tgt, ast.Name):
                    x.loc.pop(tgt.id, None)
                    nxt.append((x, None))
                else:
                    raise Unsupported("del " + type(tgt).__name__)
            cur = nxt
        return cur

    def s_If(self, s, st):
        outs = []
        for (x, c) in self.ev_cond(s.test, st):
            if isinstance(c, Raise):
                outs.append((x, ("raise", c.exc)))
                continue
            for (y, side) in self.fork(x, c, ("if", s.lineno)):
                outs.extend(self.run_block(s.body if side else s.orelse, y))
        return outs

    def ev_cond(self, e, st):
        """-> list of (state, z3 Bool | Raise)"""
        outs = []
        for (x, v) in self.ev(e, st):
            if isinstance(v, Raise):
                outs.append((x, v))
            else:
                outs.extend(self.truthy(x, v))
        return outs

    def s_Raise(self, s, st):
        if s.exc is None:
            exc = st.loc.get("$handling")
            if exc is None:
                raise Unsupported("bare raise outside handler")
            return [(st, ("raise", exc))]
        outs = []
        for (x, v) in self.ev(s.exc, st):
            if isinstance(v, Raise):
                outs.append((x, ("raise", v.exc)))
                continue
            if isinstance(v, ClassV):     # raise TypeError  (class, not instance)
                v = self.mk_exc(v.ci.name)
            if not isinstance(v, ExcV):
                raise Unsupported("raise of non-exception")
            # `raise X from e`: cause irrelevant
            outs.append((x, ("raise", v)))
        return outs

    def s_Try(self, s, st):
        res = []
        for (x, o) in self.run_block(s.body, st):
            if o is None:
                res.extend(self.run_block(s.orelse, x) if s.orelse else [(x, None)])
            elif o[0] == "raise" and s.handlers:
                res.extend(self.dispatch_handlers(s.handlers, x, o[1]))
            else:
                res.append((x, o))
        if not s.finalbody:
            return res
        out = []
        for (x, o) in res:
            for (y, o2) in self.run_block(s.finalbody, x):
                out.append((y, o if o2 is None else o2))
        return out

    def dispatch_handlers(self, handlers, st, exc):
        outs = []
        cur = [st]
        for h in handlers:
            nxt = []
            for x in cur:
                if h.type is None:
                    cond = z3.BoolVal(True)
                else:
                    names = self.handler_names(h.type, x)
                    cond = self.exc_isinstance(exc, names)
                for (y, side) in self.fork(x, cond, ("except", h.lineno)):
                    if side:
                        saved = y.loc.get("$handling")
                        y.loc["$handling"] = exc
                        if h.name:
                            y.loc[h.name] = exc
                        for (z, o) in self.run_block(h.body, y):
                            if saved is None:
                                z.loc.pop("$handling", None)
                            else:
                                z.loc["$handling"] = saved
                            outs.append((z, o))
                    else:
                        nxt.append(y)
            cur = nxt
        for x in cur:
            outs.append((x, ("raise", exc)))
        return outs

    def handler_names(self, texpr, st):
        if isinstance(texpr, ast.Tuple):
            out = []
            for e in texpr.elts:
                out.extend(self.handler_names(e, st))
            return out
        rs = self.ev(texpr, st)
        if len(rs) != 1 or not isinstance(rs[0][1], ClassV):
            raise Unsupported("exception handler type " + ast.unparse(texpr))
        return [rs[0][1].ci.name]

    def s_With(self, s, st):
        def go(items, st):
            if not items:
                return self.run_block(s.body, st)
            first, rest = items[0], items[1:]
            res = []
            for (x, cm) in self.ev(first.context_expr, st):
                if isinstance(cm, Raise):
                    res.append((x, ("raise", cm.exc)))
                    continue
                for (y, r) in self.call_method(x, cm, "__enter__", [], {}):
                    if isinstance(r, Raise):
                        res.append((y, ("raise", r.exc)))     # __exit__ is NOT called when __enter__ raised
                        continue
                    if first.optional_vars is not None:
                        inner = []
                        for (y2, o) in self.assign(first.optional_vars, r, y):
                            inner.extend(go(rest, y2) if o is None else [(y2, o)])
                    else:
                        inner = go(rest, y)
                    for (z, o) in inner:
                        if o is not None and o[0] == "raise":
                            eargs = [to_exc_arg(o[1], "type"), o[1], Const(None)]
                        else:
                            eargs = [Const(None), Const(None), Const(None)]
                        for (w, r2) in self.call_method(z, cm, "__exit__", eargs, {}):
                            if isinstance(r2, Raise):
                                res.append((w, ("raise", r2.exc)))
                                continue
                            if o is not None and o[0] == "raise":
                                # a truthy return value of __exit__ would swallow the exception
                                for (w2, t) in self.truthy(w, r2):
                                    for (w3, side) in self.fork(w2, t, ("exit-swallows", s.lineno)):
                                        res.append((w3, None if side else o))
                            else:
                                res.append((w, o))
            return res
        return go(s.items, st)

    def s_For(self, s, st):
        outs = []
        for (x, it) in self.ev(s.iter, st):
            if isinstance(it, Raise):
                outs.append((x, ("raise", it.exc)))
                continue
            items = self.intr.concrete_iter(x, it)
            if items is None:
                outs.extend(self.intr.symbolic_for(self, s, x, it))
                continue
            cur = [(x, None)]
            for item in items:                      # literal finite iteration: unrolled exactly
                nxt = []
                for (y, o) in cur:
                    if o is not None:
                        nxt.append((y, o))
                        continue
                    for (y2, o2) in self.assign(s.target, item, y):
                        if o2 is not None:
                            nxt.append((y2, o2))
                            continue
                        for (z, o3) in self.run_block(s.body, y2):
                            if o3 is not None and o3[0] == "continue":
                                o3 = None
                            nxt.append((z, o3))
                cur = nxt
            fin = []
            for (y, o) in cur:
                if o is not None and o[0] == "break":
                    fin.append((y, None))
                elif o is None and s.orelse:
                    fin.extend(self.run_block(s.orelse, y))
                else:
                    fin.append((y, o))
            outs.extend(fin)
        return outs

    def s_While(self, s, st):
        return self.intr.symbolic_while(self, s, st)

    def s_FunctionDef(self, s, st):
        # nested def (only the _thread_lock getter, at class creation time, which is not executed)
        raise Unsupported("nested def executed")

    def s_Import(self, s, st):
        return [(st, None)]

    s_ImportFrom = s_Import

    # ------------------------------------------------------------------ expressions
    def ev(self, e, st):
        m = getattr(self, "e_" + type(e).__name__, None)
        if m is None:
            raise Unsupported(f"expression {type(e).__name__}: {ast.unparse(e)}")
        return m(e, st)

    def ev_list(self, exprs, st):
        """Evaluate left to right -> list of (state, [values] | Raise)"""
        cur = [(st, [])]
        for e in exprs:
            nxt = []
            for (x, vs) in cur:
                if isinstance(vs, Raise):
                    nxt.append((x, vs))
                    continue
                for (y, v) in self.ev(e, x):
                    nxt.append((y, v if isinstance(v, Raise) else vs + [v]))
            cur = nxt
        return cur

    def e_Constant(self, e, st):
        return [(st, Const(e.value))]

    def e_Name(self, e, st):
        n = e.id
        if n in st.loc:
            return [(st, st.loc[n])]
        return [(st, self.global_name(st, n))]

    def current_module(self, st):
        for f in reversed(st.frames):
            return f.module
        raise Unsupported("no frame")

    def global_name(self, st, n, module=None):
        m = module or self.current_module(st)
        if n == "__name__":
            return Const(m.name)
        key = (m.name, n)
        if key in self.module_cache:
            return self.module_cache[key]
        r = self.P.resolve_global(m, n)
        v = None
        if r is None:
            v = self.intr.builtin_name(n)
            if v is None:
                raise Unsupported(f"unresolved name {n} in {m.name}")
        elif r[0] == "func":
            v = FuncV(r[1])
        elif r[0] == "class":
            v = ClassV(r[1])
        elif r[0] == "module":
            v = ModuleV(r[1])
        elif r[0] == "flag":
            v = self.intr.flag(r[1], r[2])
        elif r[0] == "ext":
            v = self.intr.external(r[1], r[2])
        elif r[0] == "assign":
            v = self.eval_module_assign(n, r[1], r[2])
        self.module_cache[key] = v
        return v

    def eval_module_assign(self, name, expr, module):
        """Module-level NAME = expr: resolvers, constant tuples/frozensets, flags."""
        if isinstance(expr, ast.Call) and isinstance(expr.func, ast.Name) and expr.func.id == "AbstractTypeResolver":
            d = expr.args[0]
            assert isinstance(d, ast.Dict)
            tags = [(k.value, LambdaV(v, module)) for k, v in zip(d.keys, d.values)]
            bl = None
            for kw in expr.keywords:
                if kw.arg == "cache_blocklist":
                    bl = kw.value
            return ResolverV(name, tags, bl, module)
        st = State()
        st.frames = [_FakeFrame(module)]
        rs = self.ev(expr, st)
        if len(rs) != 1 or isinstance(rs[0][1], Raise):
            raise Unsupported(f"module constant {name}")
        return rs[0][1]

    def e_Tuple(self, e, st):
        return [(x, vs if isinstance(vs, Raise) else TupleV(vs)) for (x, vs) in self.ev_list(e.elts, st)]

    def e_List(self, e, st):
        outs = []
        for (x, vs) in self.ev_list(e.elts, st):
            outs.append((x, vs if isinstance(vs, Raise) else self.intr.list_literal(x, vs)))
        return outs

    def e_Dict(self, e, st):
        return self.intr.dict_display(self, e, st)

    def e_JoinedStr(self, e, st):
        """f-string: the concatenation of its parts as a z3 String (used to reason about the temp-file name)."""
        to_str = smt.F("to_str", Val, smt.StrS)
        cur = [(st, [])]
        for part in e.values:
            nxt = []
            for (x, acc) in cur:
                if isinstance(acc, Raise):
                    nxt.append((x, acc))
                elif isinstance(part, ast.Constant):
                    nxt.append((x, acc + [z3.StringVal(str(part.value))]))
                else:
                    for (y, v) in self.ev(part.value, x):
                        if isinstance(v, Raise):
                            nxt.append((y, v))
                            continue
                        try:
                            t = to_val(v)
                        except Unsupported:
                            t = smt.fresh("fmt")
                        y.assume(z3.Implies(smt.is_VStr(t), to_str(t) == Val.s(t)))
                        nxt.append((y, acc + [to_str(t)]))
            cur = nxt
        outs = []
        for (x, acc) in cur:
            if isinstance(acc, Raise):
                outs.append((x, acc))
            else:
                s_ = acc[0] if len(acc) == 1 else z3.Concat(*acc)
                outs.append((x, Z(VStr(s_), "str", {"plain": True})))
        return outs

    def e_Lambda(self, e, st):
        return [(st, LambdaV(e, self.current_module(st), dict(st.loc)))]

    def e_IfExp(self, e, st):
        outs = []
        for (x, c) in self.ev_cond(e.test, st):
            if isinstance(c, Raise):
                outs.append((x, c))
                continue
            for (y, side) in self.fork(x, c, ("ifexp", e.lineno)):
                outs.extend(self.ev(e.body if side else e.orelse, y))
        return outs

    def e_BoolOp(self, e, st):
        is_and = isinstance(e.op, ast.And)

        def go(i, st):
            outs = []
            for (x, v) in self.ev(e.values[i], st):
                if isinstance(v, Raise) or i == len(e.values) - 1:
                    outs.append((x, v))
                    continue
                for (y, t) in self.truthy(x, v):
                    for (z, side) in self.fork(y, t, ("boolop", e.lineno, i)):
                        if side == is_and:
                            outs.extend(go(i + 1, z))      # and: truthy -> continue; or: falsy -> continue
                        else:
                            outs.append((z, v))
            return outs
        return go(0, st)

    def e_UnaryOp(self, e, st):
        outs = []
        if isinstance(e.op, ast.Not):
            for (x, c) in self.ev_cond(e.operand, st):
                outs.append((x, c if isinstance(c, Raise) else Bv(z3.Not(c))))
            return outs
        for (x, v) in self.ev(e.operand, st):
            if isinstance(v, Raise):
                outs.append((x, v))
            elif isinstance(e.op, ast.USub):
                if isinstance(v, Const) and isinstance(v.v, (int, float)):
                    outs.append((x, Const(-v.v)))
                else:
                    outs.append((x, Iv(-as_int(v))))
            else:
                raise Unsupported("unary " + type(e.op).__name__)
        return outs

    def e_BinOp(self, e, st):
        outs = []
        for (x, vs) in self.ev_list([e.left, e.right], st):
            if isinstance(vs, Raise):
                outs.append((x, vs))
            else:
                outs.extend(self.intr.binop(x, e.op, vs[0], vs[1]))
        return outs

    def e_Compare(self, e, st):
        if len(e.ops) != 1:
            raise Unsupported("chained comparison")
        outs = []
        for (x, vs) in self.ev_list([e.left, e.comparators[0]], st):
            if isinstance(vs, Raise):
                outs.append((x, vs))
            else:
                outs.extend(self.intr.compare(x, e.ops[0], vs[0], vs[1]))
        return outs

    def e_Attribute(self, e, st):
        outs = []
        for (x, obj) in self.ev(e.value, st):
            if isinstance(obj, Raise):
                outs.append((x, obj))
            else:
                outs.extend(self.getattr(x, obj, e.attr))
        return outs

    def ev_slice(self, sl, st):
        if isinstance(sl, ast.Slice):
            parts = [p if p is not None else ast.Constant(value=None) for p in (sl.lower, sl.upper, sl.step)]
            outs = []
            for (x, vs) in self.ev_list(parts, st):
                outs.append((x, vs if isinstance(vs, Raise) else self.intr.make_slice(x, vs)))
            return outs
        return self.ev(sl, st)

    def e_Subscript(self, e, st):
        outs = []
        for (x, obj) in self.ev(e.value, st):
            if isinstance(obj, Raise):
                outs.append((x, obj))
                continue
            for (y, key) in self.ev_slice(e.slice, x):
                if isinstance(key, Raise):
                    outs.append((y, key))
                else:
                    outs.extend(self.intr.getitem(y, obj, key))
        return outs

    def e_ListComp(self, e, st):
        return self.intr.comprehension(self, e, st, "list")

    def e_DictComp(self, e, st):
        return self.intr.comprehension(self, e, st, "dict")

    def e_GeneratorExp(self, e, st):
        raise Unsupported("generator expression")

    def e_Starred(self, e, st):
        raise Unsupported("starred expression outside call")

    def e_Call(self, e, st):
        if (isinstance(e.func, ast.Attribute) and isinstance(e.func.value, ast.Name)
                and e.func.attr in ("append", "extend") and self.intr.is_local_container(st, e.func.value.id)):
            outs = []
            for (y, args, kwargs) in self.ev_args(e, st):
                if isinstance(args, Raise):
                    outs.append((y, args))
                    continue
                y.loc[e.func.value.id] = self.intr.local_method(y, y.loc[e.func.value.id], e.func.attr, args)
                outs.append((y, Const(None)))
            return outs
        # super() zero-arg
        if isinstance(e.func, ast.Name) and e.func.id == "super" and not e.args:
            fr = st.frames[-1]
            recv = st.loc.get("self", st.loc.get("cls"))
            if fr.cls is None or recv is None:
                raise Unsupported("super() outside method")
            return [(st, SuperV(fr.cls, recv))]
        outs = []
        for (x, fn) in self.ev(e.func, st):
            if isinstance(fn, Raise):
                outs.append((x, fn))
                continue
            for (y, args, kwargs) in self.ev_args(e, x):
                if isinstance(args, Raise):
                    outs.append((y, args))
                else:
                    outs.extend(self.call(y, fn, args, kwargs, e))
        return outs

    def ev_args(self, e, st):
        """-> list of (state, [positional] | Raise, {kw})"""
        cur = [(st, [], {})]
        for a in e.args:
            nxt = []
            for (x, ps, ks) in cur:
                if isinstance(ps, Raise):
                    nxt.append((x, ps, ks))
                    continue
                if isinstance(a, ast.Starred):
                    for (y, v) in self.ev(a.value, x):
                        if isinstance(v, Raise):
                            nxt.append((y, v, ks))
                        elif isinstance(v, TupleV):
                            nxt.append((y, ps + list(v.items), ks))
                        else:
                            raise Unsupported("*args of non-tuple")
                else:
                    for (y, v) in self.ev(a, x):
                        nxt.append((y, v if isinstance(v, Raise) else ps + [v], ks))
            cur = nxt
        for k in e.keywords:
            nxt = []
            for (x, ps, ks) in cur:
                if isinstance(ps, Raise):
                    nxt.append((x, ps, ks))
                    continue
                for (y, v) in self.ev(k.value, x):
                    if isinstance(v, Raise):
                        nxt.append((y, v, ks))
                    elif k.arg is None:
                        if not isinstance(v, KwV):
                            raise Unsupported("**kwargs of non-literal mapping")
                        d = dict(ks)
                        d.update(v.d)
                        nxt.append((y, ps, d))
                    else:
                        d = dict(ks)
                        d[k.arg] = v
                        nxt.append((y, ps, d))
            cur = nxt
        return cur

    # ------------------------------------------------------------------ attribute access
    def class_of(self, st, v):
        """ClassInfo of a value when statically known, else None."""
        if isinstance(v, ObjV):
            return st.rec(v).cls
        return None

    def getattr(self, st, obj, name):
        """-> list of (state, V | Raise)"""
        if isinstance(obj, ObjV):
            rec = st.rec(obj)
            if name in rec.fields:
                return [(st, rec.fields[name])]
            return self.class_attr(st, rec.cls, name, obj, instance=True)
        if isinstance(obj, ClassV):
            return self.class_attr(st, obj.ci, name, obj, instance=False)
        if isinstance(obj, SuperV):
            recv = obj.recv
            ci = st.rec(recv).cls if isinstance(recv, ObjV) else recv.ci
            r = self.P.lookup_method(ci, name, after=obj.after)
            if r is None or isinstance(r, tuple):
                return self.intr.object_attr(self, st, obj, name)
            if r.cls.opaque or (r.cls.module.stdlib and r.cls.name == "object"):
                return self.intr.object_attr(self, st, obj, name)
            return [(st, BoundV(recv, r))]
        if isinstance(obj, ModuleV):
            return [(st, self.intr.module_attr(obj.name, name))]
        if isinstance(obj, ExcV):
            if name in obj.attrs:
                return [(st, obj.attrs[name])]
            if name == "__traceback__":
                return [(st, Const(None))]
            raise Unsupported(f"exception attribute {name}")
        return self.intr.value_attr(self, st, obj, name)

    def class_attr(self, st, ci, name, obj, instance):
        # mutable statics first (set at class creation time or by set_buffer_capacity)
        sv = self.intr.static(self, st, ci, name)
        if sv is not None:
            if isinstance(sv, tuple) and sv[0] == "getter":
                return self.call_function(st, sv[1], [obj], {})
            return [(st, sv)]
        r = self.P.lookup_method(ci, name)
        if r is None:
            if instance:
                ga = self.P.lookup_method(ci, "__getattr__")
                if ga is not None and not isinstance(ga, tuple):
                    return self.call_function(st, ga, [obj, Const(name)], {})
            return [(st, Raise(self.mk_exc("AttributeError")))]
        if isinstance(r, tuple):
            if r[0] == "property":
                if not instance:
                    raise Unsupported("property accessed on class")
                return self.call_function(st, r[1]["get"], [obj], {})
            if r[0] == "const":
                return [(st, self.class_const(r[2], name, r[1]))]
        fi = r
        if fi.kind == "staticmethod":
            return [(st, FuncV(fi))]
        if fi.kind == "classmethod":
            recv = obj if isinstance(obj, ClassV) else ClassV(st.rec(obj).cls)
            return [(st, BoundV(recv, fi))]
        if instance:
            return [(st, BoundV(obj, fi))]
        return [(st, FuncV(fi))]

    def class_const(self, ci, name, expr):
        key = ("$class", ci.name, name)
        if key in self.module_cache:
            return self.module_cache[key]
        if isinstance(expr, ast.Call):
            v = self.intr.class_const_call(self, ci, name, expr)
        else:
            st = State()
            st.frames = [_FakeFrame(ci.module)]
            rs = self.ev(expr, st)
            if len(rs) != 1 or isinstance(rs[0][1], Raise):
                raise Unsupported(f"class constant {ci.name}.{name}")
            v = rs[0][1]
        self.module_cache[key] = v
        return v

    def setattr(self, st, obj, name, val):
        """obj.name = val  -> list of (state, outcome)"""
        if isinstance(obj, ObjV):
            rec = st.rec(obj)
            sa = self.P.lookup_method(rec.cls, "__setattr__")
            if sa is not None and not isinstance(sa, tuple) and not sa.cls.opaque:
                st.event("attr-store", obj.addr, name, st.frames[-1].qualname if st.frames else "?")
                outs = []
                for (x, r) in self.call_function(st, sa, [obj, Const(name), val], {}):
                    outs.append((x, ("raise", r.exc) if isinstance(r, Raise) else None))
                return outs
            r = self.P.lookup_method(rec.cls, name)
            if isinstance(r, tuple) and r[0] == "property":
                if "set" not in r[1]:
                    return [(st, ("raise", self.mk_exc("AttributeError")))]
                outs = []
                for (x, rr) in self.call_function(st, r[1]["set"], [obj, val], {}):
                    outs.append((x, ("raise", rr.exc) if isinstance(rr, Raise) else None))
                return outs
            return self.store_field(st, obj, name, val)
        if isinstance(obj, ClassV):
            return self.intr.set_static(self, st, obj.ci, name, val)
        raise Unsupported(f"attribute store on {obj!r}")

    def store_field(self, st, obj, name, val):
        rec = st.rec(obj)
        old = rec.fields.get(name)
        val = self.intr.on_field_store(self, st, obj, name, val)
        rec.fields[name] = val
        st.event("field-store", obj.addr, name, len(st.frames) and st.frames[-1].qualname)
        for h in self.hooks:
            h("field-store", st, obj=obj, name=name, val=val, old=old)
        return [(st, None)]

    # ------------------------------------------------------------------ calls
    def call_method(self, st, recv, name, args, kwargs):
        outs = []
        for (x, f) in self.getattr(st, recv, name):
            if isinstance(f, Raise):
                outs.append((x, f))
            else:
                outs.extend(self.call(x, f, args, kwargs, None))
        return outs

    def call(self, st, fn, args, kwargs, node):
        if isinstance(fn, BoundV):
            return self.call_function(st, fn.fi, [fn.recv] + list(args), kwargs)
        if isinstance(fn, FuncV):
            return self.call_function(st, fn.fi, list(args), kwargs)
        if isinstance(fn, LambdaV):
            outs = self.call_lambda(st, fn, args)
            if self.mode.get("identifier_faults") and st.frames and \
                    getattr(st.frames[-1], "qualname", "") == "AbstractTypeResolver.get_type":
                # C19: a type identifier may fail transiently (RecursionError / MemoryError inside an ABC subclass hook -
                # a RuntimeError-or-other Exception that says nothing about the value): one more outcome of the call
                y = st.copy()
                e, cond = self.mk_exc_sym(("RuntimeError",), label="transient identifier fault")
                y.assume(cond)
                y.event("transient-fault", "identifier")
                outs = list(outs) + [(y, Raise(e))]
            return outs
        if isinstance(fn, ClassV):
            return self.instantiate(st, fn.ci, args, kwargs)
        if isinstance(fn, BuiltinV):
            return self.intr.call_builtin(self, st, fn, args, kwargs, node)
        if isinstance(fn, ObjV):
            m = self.P.lookup_method(st.rec(fn).cls, "__call__")
            if m is not None and not isinstance(m, tuple):
                return self.call_function(st, m, [fn] + list(args), kwargs)
        raise Unsupported(f"call of {fn!r}")

    def call_lambda(self, st, lam, args):
        saved_loc, saved_frames = st.loc, st.frames
        loc = dict(lam.closure)
        for p, a in zip(lam.node.args.args, args):
            loc[p.arg] = a
        st.loc = loc
        st.frames = st.frames + [_FakeFrame(lam.module)]
        outs = []
        for (x, v) in self.ev(lam.node.body, st):
            x.loc = dict(saved_loc)
            x.frames = list(saved_frames)
            outs.append((x, v))
        return outs

    def instantiate(self, st, ci, args, kwargs):
        if ci.opaque or ci.module.stdlib:
            return self.intr.instantiate_opaque(self, st, ci, args, kwargs)
        if any(k.name == "BaseException" for k in ci.mro):
            # a repo exception class: attributes from the `self.x = param` assignments of its __init__
            attrs = {"args": TupleV(list(args))}
            init = self.P.lookup_method(ci, "__init__")
            if init is not None and not isinstance(init, tuple) and not init.cls.opaque:
                loc = self.bind_params(init, [Const(None)] + list(args), kwargs)
                for stmt in init.body:
                    if (isinstance(stmt, ast.Assign) and isinstance(stmt.targets[0], ast.Attribute)
                            and isinstance(stmt.targets[0].value, ast.Name) and stmt.targets[0].value.id == "self"
                            and isinstance(stmt.value, ast.Name) and stmt.value.id in loc):
                        attrs[stmt.targets[0].attr] = loc[stmt.value.id]
                    elif isinstance(stmt, (ast.Pass, ast.Expr)):
                        pass
                    else:
                        raise Unsupported(f"exception constructor {ci.name}.__init__ is not a plain field initialiser")
            return [(st, ExcV(self.exc_type(ci.name), attrs, label=ci.name))]
        c = self.find_contract_ctor(ci)
        if c is not None:
            return c.apply(self, st, [ClassV(ci)] + list(args), kwargs)
        obj = st.new_obj(ci, {}, tag="new:" + ci.name)
        st.event("alloc", obj.addr, ci.name)
        init = self.P.lookup_method(ci, "__init__")
        if init is None or isinstance(init, tuple) or init.cls.opaque:
            return [(st, obj)]
        outs = []
        for (x, r) in self.call_function(st, init, [obj] + list(args), kwargs):
            outs.append((x, r if isinstance(r, Raise) else obj))
        return outs

    def find_contract_ctor(self, ci):
        c = self.contracts.get(ci.name + ".__new__")
        return c

    def bind_params(self, fi, args, kwargs):
        a = fi.node.args
        if a.posonlyargs:
            # treat like normal positional
            pass
        params = [p.arg for p in list(a.posonlyargs) + list(a.args)]
        defaults = list(a.defaults)
        loc = {}
        pos = list(args)
        for i, p in enumerate(params):
            if i < len(pos):
                loc[p] = pos[i]
        extra = pos[len(params):]
        kw = dict(kwargs)
        for p in params:
            if p in kw:
                if p in loc:
                    raise Unsupported(f"multiple values for {p} in {fi.qualname}")
                loc[p] = kw.pop(p)
        nd = len(defaults)
        for i, p in enumerate(params):
            if p not in loc:
                di = i - (len(params) - nd)
                if di < 0:
                    raise Unsupported(f"missing argument {p} in call of {fi.qualname}")
                loc[p] = ("$default", defaults[di])
        for p, d in zip(a.kwonlyargs, a.kw_defaults):
            if p.arg in kw:
                loc[p.arg] = kw.pop(p.arg)
            elif d is not None:
                loc[p.arg] = ("$default", d)
            else:
                raise Unsupported("missing kw-only arg")
        if a.vararg:
            loc[a.vararg.arg] = TupleV(extra)
        elif extra:
            raise Unsupported(f"too many positional arguments for {fi.qualname}")
        if a.kwarg:
            loc[a.kwarg.arg] = KwV(kw)
        elif kw:
            raise Unsupported(f"unexpected keyword arguments {list(kw)} for {fi.qualname}")
        return loc

    def call_function(self, st, fi, args, kwargs):
        """Call of a repo (or stdlib-mixin) function: contract if it has one, else inline."""
        q = fi.qualname
        c = self.contracts.get(q)
        if c is not None and not c.covers(kwargs):
            # keyword arguments the contract says nothing about (e.g. a new flag forwarded to a constructor): the call is
            # outside the contract's domain - the real body is executed in place instead
            c = None
        if c is not None and (q not in self.no_contract or any(f is fi for f in st.frames)):
            # (a recursive call of the function under verification uses its own contract: partial correctness)
            self.used_contracts.add(q)
            return c.apply(self, st, list(args), self.with_real_defaults(fi, c, args, kwargs))
        if fi.abstract and fi.body and all(isinstance(b, ast.Pass) for b in fi.body):
            raise Unsupported(f"call of abstract method {q}")
        if len(st.frames) > MAX_INLINE_DEPTH:
            raise Unsupported(f"inline depth exceeded at {q}")
        if any(f is fi for f in st.frames):
            raise Unsupported(f"recursive call of {q} without a contract")
        self.inlined.add(q)
        return self.inline(st, fi, args, kwargs)

    @staticmethod
    def with_real_defaults(fi, c, args, kwargs):
        """A contract is applied to the arguments the REAL function would see: parameters the call leaves out take the
        constant default of the real signature (re-read from the AST on every run), not a default written in the sidecar."""
        kw = dict(kwargs)
        a = fi.node.args
        names = [x.arg for x in list(a.posonlyargs) + list(a.args)]
        defaults = dict(zip(names[len(names) - len(a.defaults):], a.defaults))
        for ka, kd in zip(a.kwonlyargs, a.kw_defaults):
            if kd is not None:
                defaults[ka.arg] = kd
        for p in getattr(c, "params", ()):
            if p in kw or p not in defaults:
                continue
            if p in names and names.index(p) < len(args):
                continue
            d = defaults[p]
            if isinstance(d, ast.Constant):
                kw[p] = Const(d.value)
        return kw

    def inline(self, st, fi, args, kwargs):
        loc = self.bind_params(fi, args, kwargs)
        saved_loc, saved_frames = st.loc, st.frames
        st.loc = {}
        st.frames = saved_frames + [fi]
        # defaults are constants in this code base (None / True / False / -1 / ints)
        for k, v in list(loc.items()):
            if isinstance(v, tuple) and v and v[0] == "$default":
                rs = self.ev(v[1], st)
                assert len(rs) == 1
                loc[k] = rs[0][1]
        st.loc = loc
        outs = []
        for (x, o) in self.run_block(fi.body, st):
            x.loc = dict(saved_loc)
            x.frames = list(saved_frames)
            if o is None:
                outs.append((x, Const(None)))
            elif o[0] == "return":
                outs.append((x, o[1]))
            elif o[0] == "raise":
                outs.append((x, Raise(o[1])))
            else:
                raise Unsupported("break/continue escaped function")
        return outs

    def run_function(self, st, fi, args, kwargs=None):
        """Execute the BODY of fi (never its contract) from st: the verification entry point."""
        q = fi.qualname
        self.no_contract.add(q)
        try:
            return self.inline(st, fi, args, kwargs or {})
        finally:
            self.no_contract.discard(q)


class _FakeFrame:
    """Frame stand-in giving the module context for module-level / lambda evaluation."""
    def __init__(self, module):
        self.module = module
        self.cls = None
        self.qualname = "<module %s>" % module.name
        self.name = "<module>"


def _as_load(tgt):
    import copy
    t = copy.copy(tgt)
    t.ctx = ast.Load()
    return t


def to_exc_arg(exc, what):
    return Const(None) if exc is None else exc
