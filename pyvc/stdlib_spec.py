"""Trusted specifications of the stdlib / third-party primitives the back ends use (DESIGN.md 3.4):
files [E-FS], json [E-JSON], os.path / uuid, redis / pymongo / zarr clients [E-CLIENT], hashlib [E-MD5].

File model: ghost FS : filename -> bytes (VAbsent when the file does not exist), Meta : filename -> metadata,
and Res : filename -> decoded JSON content, kept in lock-step with FS (Res[p] = json_loads(FS[p])).
Every change of FS is an event ("fs", path, new bytes, state snapshot) so that the C08 `throughout`
clause can be checked after every primitive and after every prefix of a write."""
import z3

from . import smt
from .smt import Val, VNone, VAbsent, VInt, VStr, VRef, F, OP, IntS, BoolS
from .values import (V, Z, Bv, Iv, Const, ObjV, TupleV, KwV, BuiltinV, ExcV, Raise, Unsupported, to_val, as_int)
from . import builtins_spec as bs

json_dumps = F("json_dumps", Val, Val)        # text of a plain JSON value
json_loads = F("json_loads", Val, Val)        # value of a text / bytes blob
bytes_encode = F("bytes_encode", Val, Val)
bytes_decode = F("bytes_decode", Val, Val)
bytes_empty = F("bytes_empty", Val)()
bytes_prefix = F("bytes_prefix", Val, IntS, Val)   # first k bytes
bytes_len = F("bytes_len", Val, IntS)
path_dirname = F("path_dirname", Val, Val)
path_basename = F("path_basename", Val, Val)
path_join = F("path_join", Val, Val, Val)
md5_hex = F("md5_hex", Val, Val)
serialisable = None     # set from contracts.core


class FileV(V):
    _n = 0

    def __init__(self, path, mode):
        self.path = path      # z3 Val term
        self.mode = mode
        FileV._n += 1
        self.fid = "file:%d" % FileV._n   # key of the handle's logical content in State.ghost (buffered I/O)

    def __repr__(self):
        return f"File({self.path},{self.mode})"


def encode(v):
    return bytes_encode(json_dumps(v))


class StdlibMixin:
    """Mixed into builtins_spec.Intrinsics."""

    # ------------------------------------------------------------------ FS helpers
    def fs_set(self, st, path, content, what):
        content = z3.simplify(content)
        st.upd("FS", path, content)
        st.upd("Res", path, z3.If(content == VAbsent, VAbsent, json_loads(content)))
        st.g["FsTick"] = st.g["FsTick"] + 1
        st.upd("Meta", path, F("meta_at", Val, IntS, Val)(path, st.g["FsTick"]))
        st.event("fs", what, path, content, dict(st.g))
        for h in self.eng.hooks:
            h("fs", st, what=what, path=path, content=content)

    def b_open(self, eng, st, fn, args, kwargs):
        eng.note("[E-FS]")
        path = to_val(args[0])
        mode = args[1].v if len(args) > 1 else "r"
        cur = st.sel("FS", path)
        outs = []
        if mode == "rb":
            for (x, side) in eng.fork(st, cur == VAbsent, ("open-missing",)):
                if side:
                    outs.append((x, Raise(ExcV(eng.exc_type("OSError"), {"errno": Const(2)}, label="OSError(ENOENT)"))))
                else:
                    y = x.copy()
                    y.event("io-fault", "open")
                    y.trace.append((("io-fault", "open"), True))
                    outs.append((y, Raise(ExcV(eng.exc_type("OSError"), {"errno": Const(5)}, label="OSError(EIO)"))))
                    outs.append((x, FileV(path, mode)))
            return outs
        if mode == "wb":
            if any(mentions(path, u) for u in st.ghost.get("uuids", [])):
                # [E-UUID] a name derived from a fresh uuid4 does not name an existing file
                eng.note("[E-UUID]")
                st.assume(st.sel("FS", path) == VAbsent, st.sel("Res", path) == VAbsent, z3.Not(smt.known_name(path)))
            # may fail before creating/truncating anything (EACCES, ENOSPC, ENAMETOOLONG ...)
            y = st.copy()
            y.event("io-fault", "open-w")
            y.trace.append((("io-fault", "open-w"), True))
            outs.append((y, Raise(ExcV(eng.exc_type("OSError"), {"errno": Const(13)}, label="OSError(EACCES)"))))
            self.fs_set(st, path, bytes_empty, "open-truncate")
            st.upd("Wr", path, st.sel("Wr", path) + 1)
            f = FileV(path, mode)
            st.ghost[f.fid] = bytes_empty
            outs.append((st, f))
            return outs
        raise Unsupported("open mode " + repr(mode))

    def file_attr(self, eng, st, f, name):
        return [(st, BuiltinV("file." + name, recv=f))]

    def b_file___enter__(self, eng, st, fn, args, kwargs):
        return [(st, fn.recv)]

    def b_file___exit__(self, eng, st, fn, args, kwargs):
        """Leaving the `with` closes the file: everything written through the handle is on disk now."""
        f = fn.recv
        if f.mode == "wb" and st.ghost.get(f.fid) is not None:
            self.fs_set(st, f.path, st.ghost[f.fid], "close-flush")
        return [(st, Const(None))]

    def b_file_read(self, eng, st, fn, args, kwargs):
        f = fn.recv
        return [(st, Z(st.sel("FS", f.path), "bytes", {"plain": True}))]

    def b_file_write(self, eng, st, fn, args, kwargs):
        """write(b) on a buffered file object: b joins the handle's logical content; on disk the file holds that
        content up to SOME prefix of b (Python / the OS flush at their own pace) until the file is closed.
        A failing write leaves any such prefix behind as well."""
        eng.note("[E-FS]")
        f = fn.recv
        blob = to_val(args[0])
        concat = F("bytes_concat", Val, Val, Val)
        cur = st.ghost.get(f.fid)
        if cur is None:
            cur = z3.simplify(st.sel("FS", f.path))
        full = blob if cur.eq(bytes_empty) else concat(cur, blob)
        k = smt.fresh("flushed_prefix", IntS)
        st.assume(k >= 0, k <= bytes_len(blob), bytes_len(blob) >= 0)
        st.assume(z3.Implies(k == bytes_len(blob), bytes_prefix(blob, k) == blob))
        st.assume(z3.Implies(k == 0, bytes_prefix(blob, k) == bytes_empty))
        ondisk = z3.If(k == bytes_len(blob), full, z3.If(k == 0, cur, concat(cur, bytes_prefix(blob, k))))
        self.fs_set(st, f.path, ondisk, "write-buffered")
        bad = st.copy()
        bad.ghost[f.fid] = ondisk           # nothing more reaches the disk through this handle
        bad.event("io-fault", "write")
        bad.trace.append((("io-fault", "write"), True))
        outs = [(bad, Raise(ExcV(eng.exc_type("OSError"), {"errno": Const(28)}, label="OSError(ENOSPC)")))]
        st.ghost[f.fid] = full
        outs.append((st, Iv(bytes_len(blob))))
        return outs

    def b_os_replace(self, eng, st, fn, args, kwargs):
        eng.note("[E-FS]")
        a, b = to_val(args[0]), to_val(args[1])
        y = st.copy()
        y.event("io-fault", "os.replace")
        y.trace.append((("io-fault", "os.replace"), True))
        outs = [(y, Raise(ExcV(eng.exc_type("OSError"), {"errno": Const(13)}, label="OSError")))]
        src = z3.simplify(st.sel("FS", a))
        st.upd("Wr", b, st.sel("Wr", b) + 1)
        self.fs_set(st, b, src, "replace-target")
        st.upd("FS", a, VAbsent)
        st.upd("Res", a, VAbsent)
        st.event("fs", "replace-source-removed", a, VAbsent, dict(st.g))
        outs.append((st, Const(None)))
        return outs

    def b_os_path_islink(self, eng, st, fn, args, kwargs):
        """Whether a path is a symbolic link: an unknown fact about the file system (a function of the path)."""
        eng.note("[E-FS]")
        return [(st, Bv(F("fs_islink", Val, BoolS)(to_val(args[0]))))]

    def b_shutil_copyfile(self, eng, st, fn, args, kwargs):
        """shutil.copyfile(src, dst) opens dst for writing (TRUNCATING it) and then copies the bytes: not atomic on dst
        [E-FS].  Outcomes: failure before anything happened; failure after the truncation; success."""
        eng.note("[E-FS]")
        a, b = to_val(args[0]), to_val(args[1])
        y = st.copy()
        y.event("io-fault", "copyfile")
        y.trace.append((("io-fault", "copyfile"), True))
        outs = [(y, Raise(ExcV(eng.exc_type("OSError"), {"errno": Const(13)}, label="OSError")))]
        src = z3.simplify(st.sel("FS", a))
        st.upd("Wr", b, st.sel("Wr", b) + 1)
        self.fs_set(st, b, bytes_empty, "copyfile-truncate")
        z = st.copy()
        z.event("io-fault", "copyfile-write")
        z.trace.append((("io-fault", "copyfile-write"), True))
        outs.append((z, Raise(ExcV(eng.exc_type("OSError"), {"errno": Const(28)}, label="OSError(ENOSPC)"))))
        self.fs_set(st, b, src, "copyfile-done")
        outs.append((st, Const(None)))
        return outs

    def b_os_remove(self, eng, st, fn, args, kwargs):
        eng.note("[E-FS]")
        a = to_val(args[0])
        self.fs_set(st, a, VAbsent, "remove")
        return [(st, Const(None))]

    def b_os_stat(self, eng, st, fn, args, kwargs):
        eng.note("[E-FS]")
        p = to_val(args[0])
        outs = []
        for (x, side) in eng.fork(st, x_absent(st, p), ("stat-missing",)):
            if side:
                outs.append((x, Raise(ExcV(eng.exc_type("OSError"), {"errno": Const(2)}, label="OSError(ENOENT)"))))
            else:
                outs.append((x, Z(x.sel("Meta", p), "statresult", {"plain": True})))
        return outs

    def b_os_path_split(self, eng, st, fn, args, kwargs):
        p = to_val(args[0])
        return [(st, TupleV([Z(path_dirname(p), "str", {"plain": True}), Z(path_basename(p), "str", {"plain": True})]))]

    def b_os_path_join(self, eng, st, fn, args, kwargs):
        return [(st, Z(path_join(to_val(args[0]), to_val(args[1])), "str", {"plain": True}))]

    def b_uuid_uuid4(self, eng, st, fn, args, kwargs):
        u = smt.fresh("uuid4")
        st.ghost.setdefault("uuids", [])
        st.ghost["uuids"] = st.ghost["uuids"] + [u]
        return [(st, Z(u, "uuid", {"plain": True}))]

    # ------------------------------------------------------------------ json  [E-JSON]
    def b_json_dumps(self, eng, st, fn, args, kwargs):
        eng.note("[E-JSON]")
        obj = args[0]
        enc = kwargs.get("cls")
        extra = sorted(set(kwargs) - {"cls"})
        if extra or len(args) > 1:
            # the trusted spec [E-JSON] is stated for json.dumps(obj[, cls=Encoder]) with every other option at its default
            raise Unsupported("json.dumps with option(s) " + ", ".join(extra or ["<positional>"]) + " is outside the trusted [E-JSON] spec")
        if isinstance(obj, ObjV):
            # json.dumps(node, cls=SyncedCollectionJSONEncoder): the encoder's default() hands out o._data for
            # synced nodes (contract of utils.default, verified under C12), so the text is that of the plain view
            if enc is None:
                return [(st, Raise(eng.mk_exc("TypeError")))]
            v = st.sel("View", z3.IntVal(obj.addr))
            st.event("encode-node", obj.addr)
        elif isinstance(obj, Z) and obj.hint in ("dict", "list"):
            owner = obj.meta.get("owner")
            if owner is None:
                raise Unsupported("json.dumps of an unowned container")
            v = st.sel("View", z3.IntVal(owner.addr))
            st.event("cell-read", owner.addr, "json.dumps")
            for h in eng.hooks:
                h("cell-read", st, ref=obj, op="json.dumps", owner=owner)
        else:
            v = eng.intr.iv(st, obj)
        from contracts.core import serialisable as ser
        outs = []
        for (x, side) in eng.fork(st, ser(v), ("json-serialisable",)):
            if side:
                outs.append((x, Z(json_dumps(v), "str", {"plain": True})))
            else:
                e, cond = eng.mk_exc_sym(("TypeError", "ValueError"))
                x.assume(cond)
                x.event("io-fault", "unserialisable")
                outs.append((x, Raise(e)))
        return outs

    def b_json_loads(self, eng, st, fn, args, kwargs):
        eng.note("[E-JSON]")
        blob = to_val(args[0])
        ok = F("json_valid", Val, BoolS)(blob)
        outs = []
        for (x, side) in eng.fork(st, ok, ("json-valid",)):
            if side:
                outs.append((x, Z(json_loads(blob), None, {"plain": True, "fresh_container": True})))
            else:
                x.event("io-fault", "json.loads")
                outs.append((x, Raise(eng.mk_exc("JSONDecodeError"))))
        return outs

    # ------------------------------------------------------------------ value methods of str / bytes / external objects
    def value_method_ext(self, eng, st, recv, name, args, kwargs):
        if isinstance(recv, Z):
            if name == "encode":
                return [(st, Z(bytes_encode(recv.term), "bytes", {"plain": True}))]
            if name == "decode":
                return [(st, Z(bytes_decode(recv.term), "str", {"plain": True}))]
            if recv.hint == "ext":
                return self.client_call(eng, st, recv, name, args, kwargs)
        return None

    # ------------------------------------------------------------------ clients  [E-CLIENT]
    def client_call(self, eng, st, recv, name, args, kwargs):
        eng.note("[E-CLIENT]")
        rid2 = F("resid2", Val, Val, Val)
        if name == "get":                       # redis: blob or None
            rid = rid2(recv.term, to_val(args[0]))
            cur = st.sel("Res", rid)
            outs = []
            y = st.copy()
            y.event("io-fault", "client.get")
            y.trace.append((("io-fault", "client.get"), True))
            outs.append((y, Raise(eng.mk_exc("OSError"))))
            for (x, side) in eng.fork(st, cur == VAbsent, ("redis-missing",)):
                outs.append((x, Const(None) if side else Z(encode(cur), "bytes", {"plain": True})))
            return outs
        if name == "set":                       # redis
            rid = rid2(recv.term, to_val(args[0]))
            y = st.copy()
            y.event("io-fault", "client.set")
            y.trace.append((("io-fault", "client.set"), True))
            outs = [(y, Raise(eng.mk_exc("OSError")))]
            st.upd("Res", rid, json_loads(to_val(args[1])))
            st.upd("Wr", rid, st.sel("Wr", rid) + 1)
            st.event("res-write", rid)
            outs.append((st, Const(None)))
            return outs
        if name == "find_one":                  # pymongo
            rid = rid2(recv.term, to_val(args[0]))
            cur = st.sel("Res", rid)
            y = st.copy()
            y.event("io-fault", "client.find_one")
            y.trace.append((("io-fault", "client.find_one"), True))
            doc = F("mongo_doc", Val, Val, Val)(to_val(args[0]), cur)
            outs = [(y, Raise(eng.mk_exc("OSError")))]
            st.assume(doc != VNone)
            for (x, side) in eng.fork(st, cur == VAbsent, ("mongo-missing",)):
                outs.append((x, Const(None) if side else Z(doc, None, {"plain": True, "mongo_doc": cur})))
            return outs
        if name == "replace_one":               # pymongo, upsert
            rid = rid2(recv.term, to_val(args[0]))
            doc = args[1]
            data = doc.meta.get("items", {}).get("data") if isinstance(doc, Z) else None
            if data is None:
                raise Unsupported("replace_one with an unrecognised document")
            outs = []
            y = st.copy()
            y.event("io-fault", "client.replace_one")
            y.trace.append((("io-fault", "client.replace_one"), True))
            outs.append((y, Raise(eng.mk_exc("OSError"))))
            from contracts.core import serialisable as ser
            for (x, side) in eng.fork(st, ser(data), ("bson-encodable",)):
                if side:
                    x.upd("Res", rid, data)
                    x.upd("Wr", rid, x.sel("Wr", rid) + 1)
                    x.event("res-write", rid)
                    outs.append((x, Const(None)))
                else:
                    x.event("io-fault", "unserialisable")
                    outs.append((x, Raise(eng.mk_exc("InvalidDocument"))))
            return outs
        if name == "require_dataset":           # zarr: (re)creates the dataset
            rid = rid2(recv.term, to_val(args[0]))
            y = st.copy()
            y.event("io-fault", "client.require_dataset")
            y.trace.append((("io-fault", "client.require_dataset"), True))
            return [(y, Raise(eng.mk_exc("OSError"))), (st, Z(smt.fresh("dataset"), "zarr-dataset", {"rid": rid}))]
        raise Unsupported(f"client method {name}")


def mentions(term, sub):
    return any(e.eq(sub) for e in smt.subterms([term]))


def x_absent(st, p):
    return st.sel("FS", p) == VAbsent


def stdlib_axioms(formulas):
    """[E-JSON] loads(encode(dumps v)) = v ; decode(encode t) = t   (instantiated per occurring term)."""
    ax = []
    for e in smt.subterms(list(formulas)):
        if not z3.is_app(e):
            continue
        nm = e.decl().name()
        if nm == "json_loads":
            a = e.children()[0]
            ax.append(e != VAbsent)
            if z3.is_app(a) and a.decl().name() == "bytes_encode":
                t = a.children()[0]
                if z3.is_app(t) and t.decl().name() == "json_dumps":
                    ax.append(e == t.children()[0])
            if z3.is_app(a) and a.decl().name() == "bytes_decode":
                b = a.children()[0]
                ax.append(e == json_loads(b))
            if z3.is_app(a) and a.decl().name() == "json_dumps":
                ax.append(e == a.children()[0])
        if nm == "bytes_encode":
            t = e.children()[0]
            if z3.is_app(t) and t.decl().name() == "json_dumps":
                v = t.children()[0]
                # the blob of a value decodes to that value, through either decoding route
                ax.append(json_loads(bytes_decode(e)) == v)
                ax.append(json_loads(e) == v)
                ax.append(F("json_valid", Val, BoolS)(e))
                ax.append(F("json_valid", Val, BoolS)(bytes_decode(e)))
        if nm == "bytes_decode":
            a = e.children()[0]
            if z3.is_app(a) and a.decl().name() == "bytes_encode":
                ax.append(e == a.children()[0])
        if nm == "json_valid":
            a = e.children()[0]
            if z3.is_app(a) and a.decl().name() == "bytes_encode" and z3.is_app(a.children()[0]) \
                    and a.children()[0].decl().name() == "json_dumps":
                ax.append(e)
        if nm == "bytes_len":
            ax.append(e >= 0)
        if nm in ("bytes_encode", "bytes_concat", "bytes_empty", "bytes_prefix"):
            ax.append(z3.And(e != VAbsent, e != VNone))
    return ax


def _install_loops():
    from . import loops
    loops.install(FullIntrinsics)


class FullIntrinsics(bs.Intrinsics, StdlibMixin):
    def value_attr(self, eng, st, obj, name):
        if isinstance(obj, FileV):
            return [(st, BuiltinV("file." + name, recv=obj))]
        if isinstance(obj, Z) and obj.hint == "statresult" and name in ("st_size", "st_mtime_ns"):
            return [(st, Z(F(name, Val, Val)(obj.term), None, {"plain": True}))]
        return bs.Intrinsics.value_attr(self, eng, st, obj, name)

    def setitem(self, st, obj, key, val):
        if isinstance(obj, Z) and obj.hint == "zarr-dataset":
            # dataset[0] = data   [E-CLIENT]
            self.eng.note("[E-CLIENT]")
            rid = obj.meta["rid"]
            data = self.iv(st, val)
            y = st.copy()
            y.event("io-fault", "client.dataset-store")
            y.trace.append((("io-fault", "client.dataset-store"), True))
            outs = [(y, Raise(self.eng.mk_exc("OSError")))]
            from contracts.core import serialisable as ser
            for (x, side) in self.eng.fork(st, ser(data), ("zarr-encodable",)):
                if side:
                    x.upd("Res", rid, data)
                    x.upd("Wr", rid, x.sel("Wr", rid) + 1)
                    x.event("res-write", rid)
                    outs.append((x, Const(None)))
                else:
                    x.event("io-fault", "unserialisable")
                    e, cond = self.eng.mk_exc_sym(("TypeError", "ValueError"))
                    x.assume(cond)
                    outs.append((x, Raise(e)))
            return outs
        return bs.Intrinsics.setitem(self, st, obj, key, val)

    def plain_getitem(self, st, obj, key):
        if isinstance(obj, Z) and "mongo_doc" in obj.meta and isinstance(key, Const) and key.v == "data":
            return [(st, Z(obj.meta["mongo_doc"], None, {"plain": True, "fresh_container": True}))]
        if isinstance(obj, Z) and obj.hint == "ext":
            # zarr: group[name] -> dataset (KeyError iff absent); dataset[0] -> content   [E-CLIENT]
            self.eng.note("[E-CLIENT]")
            rid = F("resid2", Val, Val, Val)(obj.term, to_val(key))
            cur = st.sel("Res", rid)
            outs = []
            y = st.copy()
            y.event("io-fault", "client.getitem")
            y.trace.append((("io-fault", "client.getitem"), True))
            outs.append((y, Raise(self.eng.mk_exc("OSError"))))
            for (x, side) in self.eng.fork(st, cur == VAbsent, ("zarr-missing",)):
                if side:
                    outs.append((x, Raise(self.eng.mk_exc("KeyError"))))
                else:
                    outs.append((x, Z(smt.fresh("dataset"), "zarr-dataset-read", {"content": cur})))
            return outs
        if isinstance(obj, Z) and obj.hint == "zarr-dataset-read":
            return [(st, Z(obj.meta["content"], None, {"plain": True, "fresh_container": True}))]
        return bs.Intrinsics.plain_getitem(self, st, obj, key)


_install_loops()
