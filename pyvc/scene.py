"""Initial symbolic states ("scenes"): a receiver of concrete class C satisfying the representation
invariant Inv (DESIGN.md 4.2), as a root or as a nested child below a root of its family."""
import z3

from . import smt
from .smt import Val, VNone, VRef, VStr, IntS, BoolS, F
from .values import Z, Bv, Iv, Const, ObjV, BoundV, TupleV, State, to_val
from . import builtins_spec as bs

BACKEND_FIELDS = {
    "JSONCollection": ("_filename", "_write_concern"),
    "RedisCollection": ("_client", "_key"),
    "MongoDBCollection": ("_collection", "_uid"),
    "ZarrCollection": ("_group", "_name", "_object_codec"),
}


def mro_names(ci):
    return [k.name for k in ci.mro]


def kind_of_class(eng, ci):
    return eng.R["classes"][ci.name]["kind"]


def family(eng, ci):
    """(dict class, list class) registered for ci's backend (by reflection, cross-checked)."""
    info = eng.R["classes"][ci.name]
    names = eng.R["registry"][info["backend"]]
    d = [n for n in names if eng.R["classes"][n]["kind"] == "dict"]
    l = [n for n in names if eng.R["classes"][n]["kind"] == "list"]
    return eng.P.classes[d[0]], eng.P.classes[l[0]]


def backend_base(ci):
    for k in ci.mro:
        if k.name in BACKEND_FIELDS:
            return k.name
    raise KeyError(ci.name)


def resid(eng, st, root):
    """Val term identifying the backing resource of a root collection."""
    rec = st.rec(root)
    bb = backend_base(rec.cls)
    fs = BACKEND_FIELDS[bb]
    if bb == "JSONCollection":
        return to_val(rec.fields["_filename"])
    return F("resid2", Val, Val, Val)(to_val(rec.fields[fs[0]]), to_val(rec.fields[fs[1]]))


def is_buffered_class(ci):
    return "BufferedCollection" in mro_names(ci)


def strategy(ci):
    n = mro_names(ci)
    if "SerializedFileBufferedCollection" in n:
        return "serialized"
    if "SharedMemoryFileBufferedCollection" in n:
        return "shared"
    return None


class Scene:
    pass


def new_node(eng, st, ci, tag, root=None, name=""):
    """A synced node object of concrete class ci with symbolic fields satisfying Inv.node."""
    kind = kind_of_class(eng, ci)
    obj = st.new_obj(ci, {}, tag="node:" + tag)
    rec = st.rec(obj)
    d = smt.fresh("d_" + tag, IntS)
    st.assume(d > 1000, d < st.g["Alloc"])
    rec.fields["_data"] = Z(VRef(d), kind, {"owner": obj})
    st.data_owner[str(d)] = obj
    st.assume(st.sel("CView", d) == st.sel("View", z3.IntVal(obj.addr)))
    bb = backend_base(ci)
    if root is None:
        rec.fields["_root"] = Const(None)
        if bb == "JSONCollection":
            fn = smt.fresh("filename_" + tag)
            st.assume(smt.is_VStr(fn))
            rec.fields["_filename"] = Z(fn, "str")
            rec.fields["_write_concern"] = Bv(smt.fresh("write_concern", BoolS))
        else:
            for f in BACKEND_FIELDS[bb]:
                rec.fields[f] = Z(smt.fresh(f.strip("_") + "_" + tag), "ext")
    else:
        rec.fields["_root"] = root
        # children are built by _from_base(value, parent=...): every back-end field keeps its default
        if bb == "JSONCollection":
            rec.fields["_filename"] = Const(None)
            rec.fields["_write_concern"] = Const(False)
        else:
            for f in BACKEND_FIELDS[bb]:
                rec.fields[f] = Const(None)
        if bb == "ZarrCollection":
            rec.fields["_object_codec"] = Z(smt.fresh("codec"), "ext")
    return obj


def make_scene(eng, cname, role, rootkind=None, second=False):
    """role: 'root' | 'nested'.  For 'nested', rootkind in ('dict','list') selects the root's class.
    second=True adds another root object `o2` of the same class bound to the same resource (C04/C06/C10c)."""
    P = eng.P
    ci = P.classes[cname]
    st = State()
    sc = Scene()
    st.g["Cell"] = smt.fresh("Cell", smt.ArrIV)
    st.g["View"] = smt.fresh("View", smt.ArrIV)
    st.g["Res"] = smt.fresh("Res", smt.ArrVV)
    st.g["Wr"] = smt.fresh("Wr", smt.ArrVI)
    st.g["Depth"] = smt.fresh("Depth", smt.ArrII)
    st.g["CView"] = smt.fresh("CView", smt.ArrIV)    # plain view per CONTAINER object (shared-memory buffer aliasing)
    st.g["FS"] = smt.fresh("FS", smt.ArrVV)          # filename -> bytes (VAbsent: no such file)   [E-FS]
    st.g["Meta"] = smt.fresh("Meta", smt.ArrVV)      # filename -> (st_size, st_mtime_ns) token
    st.g["FsTick"] = smt.fresh("FsTick", IntS)
    st.g["Alloc"] = smt.fresh("Alloc", IntS)
    st.assume(st.g["Alloc"] > 100000)
    fd, fl = family(eng, ci)
    if role == "root":
        self_ = new_node(eng, st, ci, "self")
        root = self_
        rootcls = ci
    else:
        rootcls = fd if rootkind == "dict" else fl
        root = new_node(eng, st, rootcls, "root")
        self_ = new_node(eng, st, ci, "self", root=root)
        # Inv: distinct nodes of one tree own distinct containers
        st.assume(Val.addr(st.rec(root).fields["_data"].term) != Val.addr(st.rec(self_).fields["_data"].term))
        # in-memory attachment [L-COMP]: the child's view is the sub-value of the root's view at its position
        st.assume(st.sel("View", z3.IntVal(self_.addr)) ==
                  bs.sub_of(st.sel("View", z3.IntVal(root.addr)), VRef(z3.IntVal(self_.addr))))
        st.assume(st.sel("View", z3.IntVal(root.addr)) ==
                  bs.put_in(st.sel("View", z3.IntVal(root.addr)), VRef(z3.IntVal(self_.addr)), st.sel("View", z3.IntVal(self_.addr))))
    sc.self_, sc.root, sc.cls, sc.rootcls = self_, root, ci, rootcls
    # the shared synchronisation objects live on the root (SyncedCollection.__init__)
    susp0 = smt.fresh("susp0", IntS)
    st.assume(susp0 >= 0)
    susp = st.new_obj(P.classes["_CounterContext"], {"_count": Iv(susp0)}, tag="susp")
    lsname = eng.R["classes"][rootcls.name]["loadsave"]
    ls = st.new_obj(P.classes[lsname], {"_collection": root}, tag="loadsave")
    nodes = [self_] if root is self_ else [root, self_]
    for n in nodes:
        st.rec(n).fields["_suspend_sync"] = susp
        st.rec(n).fields["_load_and_save"] = ls
    sc.susp, sc.susp0, sc.ls = susp, susp0, ls
    # buffering contexts
    sc.buffered = is_buffered_class(ci)
    if sc.buffered:
        for n in nodes:
            b0 = smt.fresh("bobj0_" + st.rec(n).tag.split(":")[1], IntS)
            st.assume(b0 >= 0)
            flush = P.lookup_method(st.rec(n).cls, "_flush")
            ctx = st.new_obj(P.classes["_CounterFuncContext"], {"_count": Iv(b0), "_func": BoundV(n, flush)},
                             tag="buffered:" + st.rec(n).tag.split(":")[1])
            st.rec(n).fields["buffered"] = ctx
            if n is root or n.addr == root.addr:
                sc.bobj0 = b0
            # FileBufferedCollection.__init__ stores filename again after super().__init__
        setup_buffer_statics(eng, st, sc, rootcls)
        if rootcls is not ci:
            setup_buffer_statics(eng, st, sc, ci, aux=True)
    # locks: Inv.locks — every live node's lock id is registered in its class's table
    for n in nodes:
        info = eng.R["classes"][st.rec(n).cls.name]
        if info["supports_threading"]:
            nm = "LockDom:" + st.rec(n).cls.name
            if nm not in st.g:
                st.g[nm] = smt.fresh(nm, smt.ArrVB)
            st.assume(z3.Select(st.g[nm], to_val(st.rec(n).fields["_filename"])))
    for k in (fd, fl):
        if eng.R["classes"][k.name]["supports_threading"]:
            nm = "LockDom:" + k.name
            if nm not in st.g:
                st.g[nm] = smt.fresh(nm, smt.ArrVB)
    sc.nodes = nodes
    # Inv.data (C11): the content of every node is admissible for its own class
    from contracts.core import allowed
    for n in nodes:
        st.assume(allowed(eng, st.rec(n).cls, st.sel("View", z3.IntVal(n.addr))))
        # Inv.node: the plain view of a dict-like (list-like) node is a dict (list)
        kd = kind_of_class(eng, st.rec(n).cls)
        st.assume(smt.tyof(st.sel("View", z3.IntVal(n.addr))) == z3.IntVal(smt.tid_of(kd)))
    if backend_base(rootcls) == "JSONCollection":
        # the abstract resource content of a JSON file is the decoded content of its bytes
        from .stdlib_spec import json_loads
        fn = to_val(st.rec(root).fields["_filename"])
        st.assume(st.sel("Res", fn) == z3.If(st.sel("FS", fn) == smt.VAbsent, smt.VAbsent, json_loads(st.sel("FS", fn))))
    # Inv.res: a resource that exists holds a JSON document, never the bare value null
    st.assume(st.sel("Res", resid(eng, st, root)) != smt.VNone)
    # ... decoded JSON holds no tuples / bytes: the tuple/bytes -> list normalisation leaves it alone
    st.assume(bs.plain(st.sel("Res", resid(eng, st, root))) == st.sel("Res", resid(eng, st, root)))
    if second:
        o2cls = ci if second == "other" else rootcls
        o2 = new_node(eng, st, o2cls, "o2")
        lsname = eng.R["classes"][o2cls.name]["loadsave"]
        r2 = st.rec(o2)
        if second != "other":
            for f in BACKEND_FIELDS[backend_base(rootcls)]:
                if f not in ("_write_concern", "_object_codec"):
                    r2.fields[f] = st.rec(root).fields[f]
        else:
            o2 = o2
            # an unrelated object: its own resource (Inv.locks for it as well)
            info2 = eng.R["classes"][o2cls.name]
            if info2["supports_threading"]:
                st.assume(z3.Select(st.g["LockDom:" + o2cls.name], to_val(r2.fields["_filename"])))
            st.assume(Val.addr(r2.fields["_data"].term) != Val.addr(st.rec(root).fields["_data"].term))
            st.assume(Val.addr(r2.fields["_data"].term) != Val.addr(st.rec(self_).fields["_data"].term))
        susp2 = st.new_obj(P.classes["_CounterContext"], {"_count": Iv(z3.IntVal(0))}, tag="susp2")
        ls2 = st.new_obj(P.classes[lsname], {"_collection": o2}, tag="loadsave2")
        r2.fields["_suspend_sync"] = susp2
        r2.fields["_load_and_save"] = ls2
        if sc.buffered:
            b2 = smt.fresh("bobj0_o2", IntS)
            st.assume(b2 >= 0)
            flush = P.lookup_method(o2cls, "_flush")
            r2.fields["buffered"] = st.new_obj(P.classes["_CounterFuncContext"],
                                               {"_count": Iv(b2), "_func": BoundV(o2, flush)}, tag="buffered:o2")
        sc.o2 = o2
    sc.st = st
    return sc


def setup_buffer_statics(eng, st, sc, rootcls, aux=False):
    """Class-level buffer state of a buffered concrete class (its own objects, by reflection)."""
    P = eng.P
    c = rootcls.name
    if (c, "_CURRENT_BUFFER_SIZE") in st.statics:
        return
    size0 = smt.fresh("bufsize0_" + c, IntS)
    cap0 = smt.fresh("bufcap0_" + c, IntS)
    st.assume(size0 >= 0, cap0 >= 0)
    st.statics[(c, "_CURRENT_BUFFER_SIZE")] = Iv(size0)
    st.statics[(c, "_BUFFER_CAPACITY")] = Iv(cap0)
    bctx0 = smt.fresh("bctx0_" + c, IntS)
    st.assume(bctx0 >= 0)
    fb = P.lookup_method(rootcls, "_flush_buffer")
    from .values import ClassV
    ctx = st.new_obj(P.classes["_FileBufferedContext"],
                     {"_count": Iv(bctx0), "_func": BoundV(ClassV(rootcls), fb), "_buffer_capacity": Const(None),
                      "_cls": ClassV(rootcls), "_original_buffer_capacitys": Z(VRef(smt.fresh("capstack_addr", IntS)), "list", {})},
                     tag="bufctx:" + c)
    st.statics[(c, "_buffer_context")] = ctx
    # _buffer: filename -> entry dict ; _buffered_collections: id -> collection.  Both are built-in dict cells.
    ba = smt.fresh("bufaddr_" + c, IntS)
    ra = smt.fresh("regaddr_" + c, IntS)
    st.assume(ba > 1000, ba < st.g["Alloc"], ra > 1000, ra < st.g["Alloc"], ba != ra)
    # [A-TREE] the class-level tables are objects of their own: no node's container is one of them
    for a_, rec_ in st.objs.items():
        dv = rec_.fields.get("_data")
        if isinstance(dv, Z):
            st.assume(ba != Val.addr(dv.term), ra != Val.addr(dv.term))
    st.statics[(c, "_buffer")] = Z(VRef(ba), "dict", {"static": (c, "_buffer")})
    st.statics[(c, "_buffered_collections")] = Z(VRef(ra), "dict", {"static": (c, "_buffered_collections")})
    if not aux:
        sc.size0, sc.cap0, sc.bctx0, sc.bufctx = size0, cap0, bctx0, ctx
        sc.buf_addr, sc.reg_addr = ba, ra
