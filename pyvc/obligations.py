"""Obligations: named proof goals, each the conjunction of the path VCs of one clause of one function instance
(DESIGN.md 5.1).  `Prover.goal` discharges one path VC;  results are aggregated per obligation name."""
import time

import z3

from . import smt
from .smt import Val, BoolS, IntS
from . import builtins_spec as bs


class Ob:
    def __init__(self, name):
        self.name = name
        self.vcs = 0
        self.discharged = 0
        self.failed = []          # list of dict(path, model, reason)
        self.undecided = []
        self.time = 0.0
        self.trivial = 0

    @property
    def status(self):
        if self.failed:
            return "failed"
        if self.undecided:
            return "undecided"
        return "discharged" if self.vcs else "empty"


_AX_CACHE = {}
_GROUND = []


def ground_type_facts():
    if not _GROUND:
        for bt, sup in BUILTIN_TYPES.items():
            for at in ABSTRACT_TYPES:
                _GROUND.append(smt.inst(z3.IntVal(smt.tid_of(bt)), z3.IntVal(smt.tid_of(at))) ==
                               z3.BoolVal(at == bt or at in sup))
    return _GROUND


def closure_axioms(formulas):
    """Ground instances of the trusted axioms, one per occurring application (manual instantiation):
       * every operation symbol is a homomorphism for `canon` (congruence of Python ==)           [SPEC-BUILTIN]
       * plain(x) = x for values that are neither mappings nor sequences (leaves)                    [N-VIEW]
       * position algebra of attached nodes: sub_of(put_in(x, n, y), n) = y                         [L-COMP]
       * types of the value constructors and of container-building operations                 [SPEC-BUILTIN]
       * only node references are instances of synced classes; type(VRef a) = ClsOf(a)               [Inv.node]
    Cached per formula (formulas are shared between path states)."""
    out = []
    seen = set()
    need_ground = False
    for f in formulas:
        if not z3.is_expr(f):
            continue
        k = f.get_id()
        hit = _AX_CACHE.get(k)
        if hit is None:
            axs, g = _axioms_of(f)
            hit = (f, axs, g)
            _AX_CACHE[k] = hit
        need_ground = need_ground or hit[2]
        for a in hit[1]:
            i = a.get_id()
            if i not in seen:
                seen.add(i)
                out.append(a)
    if need_ground:
        out.extend(ground_type_facts())
    out.extend(pyeq_transfer_axioms(formulas))
    out.extend(global_row_axioms(formulas))
    from .buffer_spec import buffer_axioms
    out.extend(buffer_axioms(formulas))
    return out


_PYEQ_CACHE = {}
TRANSFER = {"list_len", "list_get", "list_index", "list_contains", "list_count", "list_index_in", "list_contains_in", "list_idx_ok", "dict_has", "dict_get", "dict_len", "sub_of"}


def _pyeq_pairs_and_reads(f):
    k = f.get_id()
    hit = _PYEQ_CACHE.get(k)
    if hit is None:
        pairs, reads = [], []
        for e in smt.subterms([f]):
            if not z3.is_app(e):
                continue
            if e.decl().kind() == z3.Z3_OP_EQ:
                a, b = e.children()
                if z3.is_app(a) and z3.is_app(b) and a.decl().name() == "canon" and b.decl().name() == "canon":
                    pairs.append((a.children()[0], b.children()[0]))
                elif a.sort() == Val and z3.is_app(a) and z3.is_app(b) and a.num_args() > 0 and b.num_args() > 0:
                    pairs.append((a, b))      # (instances of valid axioms: sound whatever the equation's context)
            elif e.decl().name() in TRANSFER and e.num_args() >= 1 and all(x.sort() == Val for x in e.children()):
                reads.append(e)
        hit = (f, pairs, reads)
        _PYEQ_CACHE[k] = hit
    return hit[1], hit[2]


def pyeq_transfer_axioms(formulas):
    """Python == is a congruence for the READ symbols of dict / list (length, element, membership, index): when the
    formulas state  a == b  (canon(a) == canon(b)) and read some f(a, ...), the homomorphism instance for f(b, ...)
    is added as well (one step; the instance for f(a, ...) itself comes from the per-term rule)."""
    pairs, reads = [], []
    for f in formulas:
        if z3.is_expr(f):
            p, r = _pyeq_pairs_and_reads(f)
            pairs.extend(p)
            reads.extend(r)
    if not pairs or not reads:
        return []
    by_first = {}
    for e in reads:
        by_first.setdefault(e.arg(0).get_id(), []).append(e)
    ax, seen = [], set()
    for (a, b) in pairs:
        for (x, y) in ((a, b), (b, a)):
            for e in by_first.get(x.get_id(), ()):
                args = [y] + e.children()[1:]
                t = e.decl()(*args)
                if t.get_id() in seen:
                    continue
                seen.add(t.get_id())
                fc = smt.F(e.decl().name() + "#c", *([Val] * len(args)), e.sort())
                cargs = [smt.canon(u) for u in args]
                ax.append((smt.canon(t) == fc(*cargs)) if t.sort() == Val else (t == fc(*cargs)))
    return ax


_LIST_CACHE = {}


def _list_reads(f):
    k = f.get_id()
    hit = _LIST_CACHE.get(k)
    if hit is None:
        out = []
        for e in smt.subterms([f]):
            if z3.is_app(e) and e.decl().name() in ("list_len", "list_get", "list_idx_ok", "list_set_ok", "list_del_ok"):
                out.append(e)
        hit = (f, out)
        _LIST_CACHE[k] = hit
    return hit[1]


def _vint(j):
    """the z3 Int inside VInt(j), or None"""
    if z3.is_app(j) and j.decl().name() == "VInt":
        return j.children()[0]
    return None


_LIST_EXP = {}


def _expand_list_read(e, cs):
    """(axioms, further reads) of one len/get/ok application e, given the alternative forms cs of its container
    (the container itself, its normal form, its aliases and their normal forms).  Memoised on (e, cs)."""
    key = (e.get_id(),) + tuple(t.get_id() for t in cs)
    hit = _LIST_EXP.get(key)
    if hit is not None:
        return hit[1], hit[2]
    ax, work = [], []
    L, G = bs.list_len, bs.list_get
    nm = e.decl().name()
    args = e.children()
    c = args[0]
    if nm == "list_len":
        ax.append(e >= 0)
    if nm in ("list_idx_ok", "list_set_ok"):
        j = _vint(args[1])
        if j is not None:
            ax.append(z3.Implies(z3.And(j >= 0, j < L(c)), e))
            ax.append(z3.Implies(j >= L(c), z3.Not(e)))
            work.append(L(c))
        _LIST_EXP[key] = ((e, cs), ax, work)
        return ax, work
    if nm == "list_del_ok":
        k = args[1]
        if z3.is_app(k) and k.decl().name() == "mk_slice":
            ax.append(e)
        _LIST_EXP[key] = ((e, cs), ax, work)
        return ax, work
    j = _vint(args[1]) if nm == "list_get" else None
    rd = (lambda x: L(x)) if nm == "list_len" else (lambda x: G(x, args[1]))
    for t in cs:
        if not z3.is_app(t):
            continue
        tn = t.decl().name()
        if not t.eq(c):
            work.append(rd(t))
            ax.append(z3.Implies(t == c, rd(t) == e))
        if tn == "list_set":
            c0, k, x = t.children()
            ki = _vint(k)
            if nm == "list_len":
                ax.append(L(t) == L(c0))
                work.append(L(c0))
            elif j is not None and ki is not None:
                ax.append(z3.Implies(z3.And(ki >= 0, ki < L(c0)), G(t, args[1]) == z3.If(ki == j, x, G(c0, args[1]))))
                work.append(G(c0, args[1]))
                work.append(L(c0))
        elif tn == "list_append":
            c0, x = t.children()
            if nm == "list_len":
                ax.append(L(t) == L(c0) + 1)
                work.append(L(c0))
            elif j is not None:
                ax.append(z3.Implies(z3.And(j >= 0, j <= L(c0)), G(t, args[1]) == z3.If(j == L(c0), x, G(c0, args[1]))))
                work.append(G(c0, args[1]))
                work.append(L(c0))
        elif tn == "list_extend":
            a0, b0 = t.children()
            if nm == "list_len":
                ax.append(L(t) == L(a0) + L(b0))
                work.append(L(a0))
                work.append(L(b0))
            elif j is not None:
                jb = bs.VInt(j - L(a0))
                ax.append(z3.Implies(j >= 0, G(t, args[1]) == z3.If(j < L(a0), G(a0, args[1]), G(b0, jb))))
                work.append(G(a0, args[1]))
                work.append(G(b0, jb))
                work.append(L(a0))
        elif tn == "list_del":
            c0, k = t.children()
            if z3.is_app(k) and k.decl().name() == "mk_slice":
                lo, hi, stp = k.children()
                li = _vint(lo)
                if li is not None and hi.eq(smt.VNone) and stp.eq(smt.VNone):
                    # del c[n:]
                    if nm == "list_len":
                        ax.append(z3.Implies(li >= 0, L(t) == z3.If(li <= L(c0), li, L(c0))))
                        work.append(L(c0))
                    elif j is not None:
                        ax.append(z3.Implies(z3.And(j >= 0, j < li), G(t, args[1]) == G(c0, args[1])))
                        work.append(G(c0, args[1]))
        elif tn == "list_empty":
            if nm == "list_len":
                ax.append(L(t) == 0)
        elif tn == "list_of":
            x = t.children()[0]
            ax.append(rd(t) == rd(x))
            work.append(rd(x))
        elif tn == "list_slice_from":
            x, n = t.children()
            ni = _vint(n)
            if ni is not None:
                if nm == "list_len":
                    ax.append(z3.Implies(ni >= 0, L(t) == z3.If(ni <= L(x), L(x) - ni, 0)))
                    work.append(L(x))
                elif j is not None:
                    jj = bs.VInt(ni + j)
                    ax.append(z3.Implies(z3.And(j >= 0, ni >= 0), G(t, args[1]) == G(x, jj)))
                    work.append(G(x, jj))
        elif tn == "plain":
            x = t.children()[0]
            # plain() acts element-wise on sequences [N-VIEW]
            from contracts.core import is_sequence
            if nm == "list_len":
                ax.append(L(t) == L(x))
                work.append(L(x))
            else:
                ax.append(z3.Implies(is_sequence(x), G(t, args[1]) == bs.plain(G(x, args[1]))))
                work.append(G(x, args[1]))
        elif t.decl().kind() == z3.Z3_OP_ITE:
            _, a1, b1 = t.children()
            work.append(rd(a1))
            work.append(rd(b1))
        elif t.decl().kind() == z3.Z3_OP_SELECT:
            arr, idx = t.children()
            while z3.is_app(arr) and arr.decl().kind() == z3.Z3_OP_STORE:
                a0, i0, v0 = arr.children()
                ax.append(z3.Implies(idx == i0, rd(t) == rd(v0)))
                work.append(rd(v0))
                arr = a0
    _LIST_EXP[key] = ((e, cs), ax, work)
    return ax, work


def global_list_axioms(formulas, alias):
    """len / get of the list operation symbols [SPEC-BUILTIN], instantiated at every occurring read and followed
    through writes, array stores and equations (as for dicts).  Indices are the non-negative ones the code uses."""
    ax = []
    work = []
    for f in formulas:
        if z3.is_expr(f):
            work.extend(_list_reads(f))
    seen = set()
    steps = 0
    while work and steps < 3000:
        e = work.pop()
        if e.get_id() in seen:
            continue
        seen.add(e.get_id())
        steps += 1
        c = e.arg(0)
        # Python == is a congruence for the read symbols: the homomorphism instance of every read term met here
        # (terms introduced by the axioms themselves are not seen by the per-formula rule)
        if e.decl().name() in ("list_len", "list_idx_ok") and all(x.sort() == Val for x in e.children()):
            fc = smt.F(e.decl().name() + "#c", *([Val] * e.num_args()), e.sort())
            hom = fc(*[smt.canon(u) for u in e.children()])
            ax.append((smt.canon(e) == hom) if e.sort() == Val else (e == hom))
        cs = [c]
        cn = _norm_select(c)
        if not cn.eq(c):
            ax.append(c == cn)
            cs.append(cn)
        for a in alias.get(c.get_id(), []) + alias.get(cn.get_id(), []):
            cs.append(a)
            an = _norm_select(a)
            if not an.eq(a):
                ax.append(a == an)
                cs.append(an)
        a2, w2 = _expand_list_read(e, cs)
        ax.extend(a2)
        work.extend(w2)
    return ax


_READS_CACHE = {}
_POP_CACHE = {}


def _pop_terms(f):
    k = f.get_id()
    hit = _POP_CACHE.get(k)
    if hit is None:
        hit = (f, [e for e in smt.subterms([f]) if z3.is_app(e) and e.decl().name() in ("list_pop_ok", "list_pop_item", "list_pop_rest")])
        _POP_CACHE[k] = hit
    return hit[1]


_POS_CACHE = {}
_NORM_CACHE = {}


class _AliasClasses:
    """Transitive closure of the collected equations (bounded breadth-first search per lookup)."""
    def __init__(self, direct):
        self.direct = direct
        self.cache = {}

    def get(self, tid, default=()):
        if tid in self.cache:
            return self.cache[tid]
        seen = {tid}
        out = []
        frontier = list(self.direct.get(tid, ()))
        while frontier and len(out) < 24:
            t = frontier.pop()
            i = t.get_id()
            if i in seen:
                continue
            seen.add(i)
            out.append(t)
            frontier.extend(self.direct.get(i, ()))
        self.cache[tid] = out
        return out


def _norm_select(t):
    """Select over a chain of stores at syntactically different constant indices: the underlying read."""
    if not (z3.is_app(t) and t.decl().kind() == z3.Z3_OP_SELECT):
        return t
    k = t.get_id()
    hit = _NORM_CACHE.get(k)
    if hit is None:
        hit = (t, z3.simplify(t))
        _NORM_CACHE[k] = hit
    return hit[1]


def _position_terms(f):
    k = f.get_id()
    hit = _POS_CACHE.get(k)
    if hit is None:
        hit = (f, [e for e in smt.subterms([f]) if z3.is_app(e) and e.decl().name() in ("put_in", "sub_of")])
        _POS_CACHE[k] = hit
    return hit[1]



def _reads_and_aliases(f):
    """(reads, equalities between Val terms) occurring in formula f; cached."""
    k = f.get_id()
    hit = _READS_CACHE.get(k)
    if hit is not None:
        return hit[1], hit[2]
    reads, eqs = [], []
    for e in smt.subterms([f]):
        if not z3.is_app(e):
            continue
        nm = e.decl().name()
        if nm in ("dict_has", "dict_get") and e.num_args() == 2:
            reads.append((nm, e.children()[0], e.children()[1]))
        elif e.decl().kind() == z3.Z3_OP_EQ and e.children()[0].sort() == Val:
            eqs.append((e.children()[0], e.children()[1]))
    _READS_CACHE[k] = (f, reads, eqs)
    return reads, eqs


def global_row_axioms(formulas):
    """Read-over-write for the dict operation symbols [SPEC-BUILTIN], instantiated at every occurring read and
    followed (a) down chains of writes, (b) through array stores, (c) through EQUATIONS between value terms that
    occur in the formulas (states of different havoc generations are linked by frame equations)."""
    reads, alias = [], {}
    for f in formulas:
        if not z3.is_expr(f):
            continue
        r, eqs = _reads_and_aliases(f)
        reads.extend(r)
        for a, b in eqs:
            alias.setdefault(a.get_id(), []).append(b)
            alias.setdefault(b.get_id(), []).append(a)
            an, bn = _norm_select(a), _norm_select(b)
            if not an.eq(a):
                alias.setdefault(a.get_id(), []).append(an)
                alias.setdefault(an.get_id(), []).append(a)
            if not bn.eq(b):
                alias.setdefault(b.get_id(), []).append(bn)
                alias.setdefault(bn.get_id(), []).append(b)
    alias = _AliasClasses(alias)
    ax = []
    # position algebra [L-COMP] through equations: put_in(put_in(x,n,a),n,b) = put_in(x,n,b);
    # sub_of(put_in(x,n,y),n) = y; put_in(x,n,sub_of(x,n)) = x
    pwork = []
    for f in formulas:
        if z3.is_expr(f):
            pwork.extend(_position_terms(f))
    pseen = set()
    psteps = 0
    while pwork and psteps < 400:
        psteps += 1
        e = pwork.pop()
        if e.get_id() in pseen:
            continue
        pseen.add(e.get_id())
        nm = e.decl().name()
        if nm == "put_in":
            X, n, b = e.children()
            Xs = _norm_select(X)
            if not Xs.eq(X):
                ax.append(X == Xs)
            for Y in [X, Xs] + alias.get(X.get_id(), []) + alias.get(Xs.get_id(), []):
                Yn = _norm_select(Y)
                for Y2 in (Y, Yn):
                    if z3.is_app(Y2) and Y2.decl().name() == "put_in":
                        x, n2, a = Y2.children()
                        t2 = bs.put_in(x, n, b)
                        ax.append(z3.Implies(n == n2, bs.put_in(Y2, n, b) == t2))
                        if not Y2.eq(Y):
                            ax.append(Y == Y2)
                        pwork.append(t2)
            for B in [b] + alias.get(b.get_id(), []):
                if z3.is_app(B) and B.decl().name() == "sub_of":
                    x2, n2 = B.children()
                    ax.append(z3.Implies(z3.And(x2 == X, n2 == n), bs.put_in(X, n, B) == X))
        else:
            X, n = e.children()
            for Y in [X] + alias.get(X.get_id(), []):
                if z3.is_app(Y) and Y.decl().name() == "put_in":
                    x, n2, y = Y.children()
                    ax.append(z3.Implies(n == n2, bs.sub_of(Y, n) == y))
    # list pop() of the last element undoes append, through equations between container states
    for f in formulas:
        if not z3.is_expr(f):
            continue
        for e in _pop_terms(f):
            c, j = e.children()
            if not (z3.is_app(j) and j.decl().name() == "VInt" and z3.is_int_value(j.children()[0])
                    and j.children()[0].as_long() == -1):
                continue
            cn = _norm_select(c)
            for A in [c, cn] + alias.get(c.get_id(), []) + alias.get(cn.get_id(), []):
                An = _norm_select(A)
                for A2 in (A, An):
                    if z3.is_app(A2) and A2.decl().name() == "list_append":
                        c0, x = A2.children()
                        ax.append(bs.list_pop_ok(A2, j))
                        ax.append(bs.list_pop_item(A2, j) == x)
                        ax.append(bs.list_pop_rest(A2, j) == c0)
                        if not A2.eq(c):
                            ax.append(z3.Implies(A2 == c, z3.And(bs.list_pop_ok(c, j), bs.list_pop_item(c, j) == x,
                                                                 bs.list_pop_rest(c, j) == c0)))
                        if not An.eq(A):
                            ax.append(A == An)
    ax.extend(global_list_axioms(formulas, alias))
    done = set()
    work = list(reads)
    steps = 0
    while work and steps < 4000:
        steps += 1
        kind, c, j = work.pop()
        key = (kind, c.get_id(), j.get_id())
        if key in done:
            continue
        done.add(key)
        for c2 in alias.get(c.get_id(), ()):
            k2 = (kind, c2.get_id(), j.get_id())
            if k2 not in done:
                # create the read on the equal term (congruence links it to the original one)
                rd = bs.dict_has(c2, j) if kind == "dict_has" else bs.dict_get(c2, j)
                ax.append(rd == rd)
                work.append((kind, c2, j))
        if kind == "dict_has":
            # a dict that has a key is not empty  [SPEC-BUILTIN]
            ax.append(z3.Implies(bs.dict_has(c, j), bs.dict_len(c) > 0))
        if not z3.is_app(c):
            continue
        nm = c.decl().name()
        if nm == "dict_set":
            c0, k, x = c.children()
            if kind == "dict_has":
                ax.append(bs.dict_has(c, j) == z3.Or(j == k, bs.dict_has(c0, j)))
            else:
                ax.append(bs.dict_get(c, j) == z3.If(j == k, x, bs.dict_get(c0, j)))
            work.append((kind, c0, j))
        elif nm == "dict_del":
            c0, k = c.children()
            if kind == "dict_has":
                ax.append(bs.dict_has(c, j) == z3.And(j != k, bs.dict_has(c0, j)))
            else:
                ax.append(z3.Implies(j != k, bs.dict_get(c, j) == bs.dict_get(c0, j)))
            work.append((kind, c0, j))
        elif nm == "dict_popitem_rest":
            c0 = c.children()[0]
            k = smt.F("unpack2_0", Val, Val)(bs.dict_popitem_pair(c0))
            ne = bs.dict_len(c0) > 0
            if kind == "dict_has":
                ax.append(z3.Implies(ne, bs.dict_has(c, j) == z3.And(j != k, bs.dict_has(c0, j))))
            else:
                ax.append(z3.Implies(z3.And(ne, j != k), bs.dict_get(c, j) == bs.dict_get(c0, j)))
            work.append((kind, c0, j))
        elif nm == "dict_empty":
            if kind == "dict_has":
                ax.append(z3.Not(bs.dict_has(c, j)))
        elif c.decl().kind() == z3.Z3_OP_ITE:
            _, a, b = c.children()
            work.append((kind, a, j))
            work.append((kind, b, j))
        elif c.decl().kind() == z3.Z3_OP_SELECT:
            arr, idx = c.children()
            while z3.is_app(arr) and arr.decl().kind() == z3.Z3_OP_STORE:
                a0, i0, v0 = arr.children()
                rd = bs.dict_has(v0, j) if kind == "dict_has" else bs.dict_get(v0, j)
                ax.append(z3.Implies(idx == i0, (bs.dict_has(c, j) if kind == "dict_has" else bs.dict_get(c, j)) == rd))
                work.append((kind, v0, j))
                if not (idx.eq(i0)):
                    base_read = z3.Select(a0, idx)
                    work.append((kind, base_read, j))
                arr = a0
    return ax


def _axioms_of(f):
    from contracts.core import is_mapping, is_sequence
    ax = []
    need_ground = False
    ops = smt.OPS
    synced = type_ids_of_synced()
    T = lambda n: z3.IntVal(smt.tid_of(n))
    for e in smt.subterms([f]):
        if not z3.is_app(e) or e.num_args() == 0:
            if z3.is_app(e) and e.sort() == Val and e.decl().name() in ("dict_empty", "list_empty"):
                nm = e.decl().name()
                need_ground = True
                ax.append(smt.tyof(e) == T("dict" if nm == "dict_empty" else "list"))
                ax.append(z3.And(z3.Not(smt.is_VNone(e)), z3.Not(smt.is_VAbsent(e)), z3.Not(smt.is_VRef(e))))
                if nm == "dict_empty":
                    ax.append(bs.dict_len(e) == 0)
            continue
        nm = e.decl().name()
        args = e.children()
        if nm in ("dict_popitem_pair", "dict_popitem_rest"):
            # popitem() of a non-empty dict removes ONE of its items and returns it  [SPEC-BUILTIN]
            c = args[0]
            pair = bs.dict_popitem_pair(c)
            k = smt.F("unpack2_0", Val, Val)(pair)
            v = smt.F("unpack2_1", Val, Val)(pair)
            ax.append(z3.Implies(bs.dict_len(c) > 0, z3.And(bs.dict_has(c, k), bs.dict_get(c, k) == v,
                                                           bs.dict_popitem_rest(c) == bs.dict_del(c, k))))
        if nm in ("list_index_in", "list_contains_in"):
            # [SPEC-BUILTIN] a hit of list.index(x, start, stop) lies inside the (normalised) bounds and is / == x
            V_, x_, lo_, hi_ = args
            r_ = bs.list_index_in(V_, x_, lo_, hi_)
            ax.append(z3.Implies(bs.list_contains_in(V_, x_, lo_, hi_),
                                 z3.And(r_ >= 0, r_ >= Val.i(lo_), r_ < Val.i(hi_), r_ < bs.list_len(V_),
                                        smt.pyeq(bs.list_get(V_, smt.VInt(r_)), x_))))
            # ... and over the whole list it is list.index(x) / `x in list`
            c_ = bs.list_contains_in(V_, x_, lo_, hi_)
            ax.append(z3.Implies(z3.And(Val.i(lo_) <= 0, Val.i(hi_) >= bs.list_len(V_)),
                                 z3.And(c_ == bs.list_contains(V_, x_), z3.Implies(c_, r_ == bs.list_index(V_, x_)))))
        if nm in ops or nm in PREDS:
            if all(a.sort() == Val for a in args):
                fc = smt.F(nm + "#c", *([Val] * len(args)), e.sort())
                cargs = [smt.canon(a) for a in args]
                ax.append((smt.canon(e) == fc(*cargs)) if e.sort() == Val else (e == fc(*cargs)))
            if nm == "plain":
                a = args[0]
                need_ground = True
                ax.append(z3.Implies(z3.Not(z3.Or(is_mapping(a), is_sequence(a))), e == a))
            if nm == "sub_of" and z3.is_app(args[0]) and args[0].decl().name() == "put_in":
                x, n, y = args[0].children()
                ax.append(z3.Implies(n == args[1], e == y))
            if nm == "put_in" and z3.is_app(args[2]) and args[2].decl().name() == "sub_of":
                x2, n2 = args[2].children()
                ax.append(z3.Implies(z3.And(x2 == args[0], n2 == args[1]), e == args[0]))
            if nm in DICT_MAKERS or nm in LIST_MAKERS:
                need_ground = True
                ax.append(smt.tyof(e) == T("dict" if nm in DICT_MAKERS else "list"))
                ax.append(z3.And(z3.Not(smt.is_VNone(e)), z3.Not(smt.is_VAbsent(e)), z3.Not(smt.is_VRef(e)),
                                 z3.Not(smt.is_VBool(e)), z3.Not(smt.is_VInt(e)), z3.Not(smt.is_VStr(e)),
                                 z3.Not(smt.is_VFloat(e))))
        elif nm == "node_items_ok":
            # unfolding along the constructors of the stored value  [SPEC-BUILTIN]
            t = args[0]
            need_ground = True
            while True:
                tn = t.decl().name() if z3.is_app(t) else ""
                if tn in ("dict_empty", "list_empty"):
                    ax.append(bs.node_items_ok(t))
                    break
                if tn in ("dict_set", "list_append"):
                    v = t.children()[-1]
                    c0 = t.children()[0]
                    item_ok = z3.Or(smt.is_VRef(v), z3.Not(z3.Or(is_mapping(v), is_sequence(v))))
                    ax.append(bs.node_items_ok(t) == z3.And(bs.node_items_ok(c0), item_ok))
                    t = c0
                    continue
                break
        elif nm == "truthy":
            t = args[0]
            need_ground = True
            ax.append(z3.Implies(smt.tyof(t) == T("dict"), e == (bs.dict_len(t) > 0)))
            ax.append(z3.Implies(smt.is_VBool(t), e == Val.b(t)))
            ax.append(z3.Implies(smt.is_VNone(t), z3.Not(e)))
            ax.append(z3.Implies(smt.is_VInt(t), e == (Val.i(t) != 0)))
        elif nm == "tyof":
            need_ground = True
            t = args[0]
            ax.append(z3.Implies(smt.is_VNone(t), e == T("NoneType")))
            ax.append(z3.Implies(smt.is_VAbsent(t), e == -1))      # "no value": not a Python object, has no type
            ax.append(z3.Implies(smt.is_VBool(t), e == T("bool")))
            ax.append(z3.Implies(smt.is_VInt(t), e == T("int")))
            ax.append(z3.Implies(smt.is_VStr(t), e == T("str")))
            ax.append(z3.Implies(smt.is_VFloat(t), e == T("float")))
            ax.append(z3.Implies(smt.is_VDict(t), e == T("dict")))
            ax.append(z3.Implies(smt.is_VList(t), e == T("list")))
            ax.append(z3.Implies(smt.is_VRef(t), e == smt.ClsOf(Val.addr(t))))
        elif nm == "inst":
            t, k = args
            if z3.is_int_value(k):
                # the ABC hierarchy [E-ABC]: Mapping / Sequence (and their mutable variants) are Collections
                kid = k.as_long()
                for sub, sup in ABC_EDGES:
                    if kid == smt.tid_of(sub):
                        ax.append(z3.Implies(e, smt.inst(t, z3.IntVal(smt.tid_of(sup)))))
            if z3.is_app(t) and t.decl().name() == "tyof" and z3.is_int_value(k) and k.as_long() in synced:
                # only references to synced nodes are instances of synced classes (Inv.node)
                ax.append(z3.Implies(e, smt.is_VRef(t.children()[0])))
    ax.extend(list_axioms(f))
    from .stdlib_spec import stdlib_axioms
    ax.extend(stdlib_axioms([f]))
    ax.extend(path_axioms(f))
    # the new terms introduced by the axioms above (tyof(e) of makers) need their own constructor facts
    extra = []
    for a in ax:
        for e in smt.subterms([a]):
            if z3.is_app(e) and e.decl().name() == "tyof":
                t = e.children()[0]
                extra.append(z3.Implies(smt.is_VNone(t), e == T("NoneType")))
                extra.append(z3.Implies(smt.is_VStr(t), e == T("str")))
    return ax + extra, need_ground


def list_axioms(f):
    """len / get over append and the empty list [SPEC-BUILTIN]."""
    ax = []
    for e in smt.subterms([f]):
        if not z3.is_app(e):
            continue
        nm = e.decl().name()
        if nm == "list_len":
            c = e.children()[0]
            ax.append(e >= 0)
            if z3.is_app(c) and c.decl().name() == "list_append":
                ax.append(e == bs.list_len(c.children()[0]) + 1)
                ax.append(bs.list_len(c.children()[0]) >= 0)
            if z3.is_app(c) and c.decl().name() == "list_empty":
                ax.append(e == 0)
        if nm in ("list_pop_item", "list_pop_rest"):
            c, j = e.children()
            # pop() of the last element undoes append  [SPEC-BUILTIN]
            if z3.is_app(c) and c.decl().name() == "list_append" and z3.is_app(j) and j.decl().name() == "VInt" \
                    and z3.is_int_value(j.children()[0]) and j.children()[0].as_long() == -1:
                c0, x = c.children()
                ax.append(e == (x if nm == "list_pop_item" else c0))
        if nm == "list_pop_ok":
            c, j = e.children()
            if z3.is_app(c) and c.decl().name() == "list_append":
                ax.append(e)
        if nm == "list_get":
            c, j = e.children()
            if z3.is_app(c) and c.decl().name() == "list_append" and z3.is_app(j) and j.decl().name() == "VInt":
                c0, x = c.children()
                ji = j.children()[0]
                ax.append(z3.Implies(z3.And(ji >= 0, ji <= bs.list_len(c0)),
                                     e == z3.If(ji == bs.list_len(c0), x, bs.list_get(c0, j))))
                ax.append(bs.list_len(c0) >= 0)
    return ax


def row_axioms(f):
    """Read-over-write for the dict operation symbols [SPEC-BUILTIN]:
         has(set(c,k,x), j) = (j = k or has(c, j))      get(set(c,k,x), j) = ite(j = k, x, get(c, j))
         has(del(c,k), j)   = (j != k and has(c, j))    j != k  =>  get(del(c,k), j) = get(c, j)
         not has(empty, j)
    instantiated (recursively down chains of writes) at every occurring read."""
    ax = []
    done = set()
    work = []
    for e in smt.subterms([f]):
        if z3.is_app(e) and e.decl().name() in ("dict_has", "dict_get") and e.num_args() == 2:
            work.append((e.decl().name(), e.children()[0], e.children()[1]))
    # lists: append
    for e in smt.subterms([f]):
        if not z3.is_app(e):
            continue
        nm = e.decl().name()
        if nm == "list_len":
            c = e.children()[0]
            ax.append(e >= 0)
            if z3.is_app(c) and c.decl().name() == "list_append":
                ax.append(e == bs.list_len(c.children()[0]) + 1)
                ax.append(bs.list_len(c.children()[0]) >= 0)
            if z3.is_app(c) and c.decl().name() == "list_empty":
                ax.append(e == 0)
        if nm == "list_get":
            c, j = e.children()
            if z3.is_app(c) and c.decl().name() == "list_append" and z3.is_app(j) and j.decl().name() == "VInt":
                c0, x = c.children()
                ji = j.children()[0]
                ax.append(z3.Implies(z3.And(ji >= 0, ji <= bs.list_len(c0)),
                                     e == z3.If(ji == bs.list_len(c0), x, bs.list_get(c0, j))))
                ax.append(bs.list_len(c0) >= 0)
    while work:
        kind, c, j = work.pop()
        key = (kind, c.get_id(), j.get_id())
        if key in done:
            continue
        done.add(key)
        if not z3.is_app(c):
            continue
        nm = c.decl().name()
        if nm == "dict_set":
            c0, k, x = c.children()
            if kind == "dict_has":
                ax.append(bs.dict_has(c, j) == z3.Or(j == k, bs.dict_has(c0, j)))
            else:
                ax.append(bs.dict_get(c, j) == z3.If(j == k, x, bs.dict_get(c0, j)))
            work.append((kind, c0, j))
        elif nm == "dict_del":
            c0, k = c.children()
            if kind == "dict_has":
                ax.append(bs.dict_has(c, j) == z3.And(j != k, bs.dict_has(c0, j)))
            else:
                ax.append(z3.Implies(j != k, bs.dict_get(c, j) == bs.dict_get(c0, j)))
            work.append((kind, c0, j))
        elif nm == "dict_empty":
            if kind == "dict_has":
                ax.append(z3.Not(bs.dict_has(c, j)))
        elif nm == "if" or c.decl().kind() == z3.Z3_OP_ITE:
            _, a, b = c.children()
            work.append((kind, a, j))
            work.append((kind, b, j))
        elif c.decl().kind() == z3.Z3_OP_SELECT:
            # a cell / view read through a chain of array stores: follow the stored values
            arr = c.children()[0]
            while z3.is_app(arr) and arr.decl().kind() == z3.Z3_OP_STORE:
                work.append((kind, arr.children()[2], j))
                arr = arr.children()[0]
    return ax


def path_axioms(f):
    """os.path.split / join are inverse on (dirname, basename); join is injective in the basename  [E-FS]."""
    from .stdlib_spec import path_join, path_dirname, path_basename
    ax = []
    joins = []
    for e in smt.subterms([f]):
        if z3.is_app(e) and e.decl().name() == "path_join":
            joins.append(e)
        if z3.is_app(e) and e.decl().name() in ("path_dirname", "path_basename"):
            p = e.children()[0]
            ax.append(path_join(path_dirname(p), path_basename(p)) == p)
            ax.append(smt.F("path_join_base", Val, Val)(p) == path_basename(p))
            ax.append(z3.Implies(smt.is_VStr(p), z3.And(smt.is_VStr(path_basename(p)), smt.is_VStr(path_dirname(p)))))
    for j in joins:
        d, b = j.children()
        inv = smt.F("path_join_base", Val, Val)
        ax.append(inv(j) == b)         # injective in the basename (and join/split are inverse)
    return ax


ABC_EDGES = [("Mapping", "Collection"), ("Sequence", "Collection"), ("MutableMapping", "Mapping"),
             ("MutableSequence", "Sequence"), ("str", "Sequence"), ("dict", "MutableMapping"), ("list", "MutableSequence"),
             ("bool", "int")]

PREDS = {"dict_has", "list_idx_ok", "list_set_ok", "list_del_ok", "list_contains", "list_pop_ok",
         "list_lt", "list_le", "list_gt", "list_ge", "dict_len", "list_len", "list_set_exc", "list_index", "list_count", "list_index_in", "list_contains_in"}

BUILTIN_TYPES = {
    # concrete built-in type -> abstract / base types it is an instance of  [E-ABC]
    "NoneType": (), "bool": ("int",), "int": (), "float": (), "str": ("Sequence", "Collection"),
    "dict": ("Mapping", "MutableMapping", "Collection"), "list": ("Sequence", "MutableSequence", "Collection"),
}
ABSTRACT_TYPES = ("Mapping", "MutableMapping", "Sequence", "MutableSequence", "Collection", "str", "int", "float", "bool",
                  "NoneType", "dict", "list", "SyncedCollection", "complex")
DICT_MAKERS = {"dict_set", "dict_del", "dict_merge", "dict_from", "dict_popitem_rest"}
LIST_MAKERS = {"list_set", "list_del", "list_insert", "list_append", "list_extend", "list_remove", "list_pop_rest",
               "list_reverse", "list_of", "list_slice_from"}


_SYNCED = [None]


def type_ids_of_synced():
    return _SYNCED[0] or set()


def set_synced_type_ids(names):
    _SYNCED[0] = {smt.tid_of(n) for n in names}


class Prover:
    def __init__(self, eng):
        self.eng = eng
        self.obs = {}
        self.samples = []
        self.case_reached = {}      # contract case (per definition instance) -> reached by some path (vacuity report)

    def ob(self, name):
        if name not in self.obs:
            self.obs[name] = Ob(name)
        return self.obs[name]

    def goal(self, name, st, goal, extra=(), info=None):
        """One path VC of obligation `name`:  st.pc and extra  =>  goal."""
        o = self.ob(name)
        o.vcs += 1
        if goal is True or (z3.is_expr(goal) and z3.is_true(goal)):
            o.discharged += 1
            o.trivial += 1
            return True
        if goal is False:
            goal = z3.BoolVal(False)
        t0 = time.time()
        assumptions = list(st.pc) + list(extra)
        ax = closure_axioms(assumptions + [goal])
        r, model, solver = self.eng.solver.prove(assumptions + ax, goal)
        dt = time.time() - t0
        o.time += dt
        if r == "unsat":
            o.discharged += 1
            if len(self.samples) < 3:
                self.samples.append({"obligation": name, "assumptions": len(assumptions), "axiom_instances": len(ax),
                                     "solver": "z3-" + z3.get_version_string(), "result": "unsat",
                                     "time_s": round(dt, 4)})
            return True
        import os as _os
        if r == "sat" and _os.environ.get("PYVC_DEBUG_OB") and _os.environ["PYVC_DEBUG_OB"] in name:
            print("DEBUG", name)
            print("  goal:", goal)
            seen = set()
            for e in smt.subterms([goal]):
                if z3.is_app(e) and e.num_args() > 0 and e.get_id() not in seen and len(str(e)) < 400:
                    seen.add(e.get_id())
                    try:
                        print("   ", str(e).replace("\n", " ")[:160], "=", model.eval(e, model_completion=True))
                    except Exception:
                        pass
        rec = {"path": list(st.trace), "events": [summarise_event(e) for e in st.events], "info": info or {}}
        if r == "sat":
            rec["model"] = model_summary(model)
            rec["reason"] = "sat"
            o.failed.append(rec)
        else:
            rec["reason"] = "unknown"
            rec["smt2"] = solver.to_smt2()
            o.undecided.append(rec)
        return False

    def structural(self, name, ok, st=None, info=None):
        """An obligation decided on the path itself (event order, syntactic facts)."""
        o = self.ob(name)
        o.vcs += 1
        if ok:
            o.discharged += 1
            o.trivial += 1
        else:
            o.failed.append({"path": list(st.trace) if st else [], "reason": "structural",
                             "events": [summarise_event(e) for e in (st.events if st else [])], "info": info or {}})
        return ok


def summarise_event(e):
    out = [e[0]]
    for x in e[1:]:
        if z3.is_expr(x):
            s = str(x)
            out.append(s if len(s) < 60 else s[:57] + "...")
        elif isinstance(x, (str, int, type(None), bool)):
            out.append(x)
        elif isinstance(x, dict):
            out.append("{...}")
        else:
            s = repr(x)
            out.append(s if len(s) < 60 else s[:57] + "...")
    return out


def model_summary(m, limit=40):
    out = {}
    for d in m.decls():
        if d.arity() == 0:
            n = d.name()
            if "!" in n and n.split("!")[0] in ("Cell", "View", "Res", "Wr", "Depth", "Cell'", "View'"):
                continue
            s = str(m[d])
            out[n] = s if len(s) < 120 else s[:117] + "..."
            if len(out) >= limit:
                break
    return out
