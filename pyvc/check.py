#!/usr/bin/env python3
"""pyvc command line:   python3-vt pyvc/check.py --property Cxx --tier quick|thorough
                        python3-vt pyvc/check.py --replay <file>
                        python3-vt pyvc/check.py --setup

Exit codes: 0 every obligation discharged (known findings aside) | 1 violation | 3 checker error.
An undecided obligation (solver unknown / unsupported construct) is never reported as a violation
(DESIGN.md 5.2): it downgrades the evidence and is listed under `undecided`."""
import argparse
import json
import multiprocessing as mp
import os
import subprocess
import sys
import time
import traceback

HERE = os.path.dirname(os.path.abspath(__file__))
ROOT = os.path.dirname(HERE)
sys.path.insert(0, ROOT)

REPO = os.environ.get("PYVC_REPO", "/repo")
VENV_PY = os.environ.get("PYVC_PYTHON", "/venv/bin/python")


def _worker(task):
    """Runs in a pool process: one group of instances; returns plain data."""
    from pyvc import setup_engine, obligations
    from pyvc.values import Unsupported
    import z3
    t0 = time.time()
    kind = task["kind"]
    out = {"task": {k: v for k, v in task.items() if k != "payload"}, "obs": {}, "errors": [], "functions": {},
           "paths": 0, "infeasible": 0, "contracts": [], "inlined": [], "trusted": [], "unsupported": []}
    try:
        eng = setup_engine.make_engine(task["repo"], threads=task.get("threads", True), numpy=task.get("numpy", False),
                                       timeout_ms=task.get("timeout_ms", 10000), seed=task.get("seed", 0))
        prover = obligations.Prover(eng)
        mod = __import__("props." + kind, fromlist=["run_task"])
        mod.run_task(eng, prover, task, out)
        for name, o in prover.obs.items():
            out["obs"][name] = {"vcs": o.vcs, "discharged": o.discharged, "trivial": o.trivial,
                                "failed": o.failed[:3], "undecided": [{k: v for k, v in u.items() if k != "smt2"}
                                                                       for u in o.undecided[:3]],
                                "n_failed": len(o.failed), "n_undecided": len(o.undecided), "time": round(o.time, 4)}
        out["contracts"] = sorted(eng.used_contracts)
        out["inlined"] = sorted(eng.inlined)
        out["trusted"] = sorted(eng.trusted)
        out["solver"] = dict(eng.solver.stats)
        out["samples"] = prover.samples
        out["cases"] = dict(prover.case_reached)
    except Exception as e:          # a crash in the checker is never a verdict
        out["errors"].append(f"{type(e).__name__}: {e}\n" + traceback.format_exc(limit=12))
    out["wall"] = round(time.time() - t0, 2)
    return out


def load_known_findings():
    p = os.path.join(ROOT, "known_findings.json")
    if not os.path.exists(p):
        return {"findings": [], "fixed": []}
    return json.load(open(p))


def git_head(path):
    try:
        return subprocess.run(["git", "-C", path, "rev-parse", "--short", "HEAD"], capture_output=True, text=True).stdout.strip()
    except Exception:
        return "?"


def main():
    ap = argparse.ArgumentParser()
    ap.add_argument("--property")
    ap.add_argument("--tier", default=os.environ.get("VERIF_TIER", "quick"))
    ap.add_argument("--replay")
    ap.add_argument("--setup", action="store_true")
    ap.add_argument("--jobs", type=int, default=int(os.environ.get("PYVC_JOBS", "16")))
    ap.add_argument("--only", default=None, help="debug: substring filter on task labels")
    args = ap.parse_args()
    seed = int(os.environ.get("VERIF_SEED", "0") or 0)
    if args.setup:
        return setup()
    if args.replay:
        from replay import replayer
        return replayer.replay_file(args.replay)
    pid = args.property
    tier = args.tier if args.tier in ("quick", "thorough") else "quick"
    if tier == "thorough":
        # second back end: per task, every 3rd VC that z3 refutes is re-checked by cvc5 (at most 150 per task)
        os.environ.setdefault("PYVC_CVC5", "150")
        os.environ.setdefault("PYVC_CVC5_EVERY", "3")
    t0 = time.time()
    try:
        from props import registry
        plan = registry.plan(pid, tier, REPO, seed)
    except Exception as e:
        print(f"CHECKER-ERROR property={pid} {type(e).__name__}: {e}")
        traceback.print_exc()
        return 3
    tasks = plan["tasks"]
    if args.only:
        tasks = [t for t in tasks if args.only in t["label"]]
    results = []
    if args.jobs > 1 and len(tasks) > 1:
        with mp.Pool(min(args.jobs, len(tasks))) as pool:
            for r in pool.imap_unordered(_worker, tasks, chunksize=1):
                results.append(r)
    else:
        for t in tasks:
            results.append(_worker(t))
    from pyvc import report
    return report.finish(pid, tier, seed, plan, results, time.time() - t0)


def setup():
    """MANIFEST.setup_cmd: check the tool chain; builds nothing persistent."""
    import z3
    ok = True
    print("z3-solver", z3.get_version_string())
    for tool in (VENV_PY, "/usr/bin/cvc5", "/usr/bin/z3"):
        e = os.path.exists(tool)
        print(tool, "present" if e else "MISSING")
        ok = ok and (e or tool != VENV_PY)
    import compileall
    for d in ("pyvc", "contracts", "props", "replay"):
        compileall.compile_dir(os.path.join(ROOT, d), quiet=1)
    os.makedirs(os.path.join(ROOT, "evidence"), exist_ok=True)
    # engine self-test: the hand-instantiated axioms of the built-in dict / list symbols against real CPython
    r = subprocess.run([sys.executable, os.path.join(ROOT, "selftest", "spec_crosscheck.py"), "40"], capture_output=True, text=True)
    print(r.stdout.strip().splitlines()[-1] if r.stdout.strip() else r.stderr[-300:])
    ok = ok and r.returncode == 0
    return 0 if ok else 3


if __name__ == "__main__":
    sys.exit(main())
