"""Mechanical extraction of the code under verification.

Parses every *.py under <repo>/synced_collections AS IT IS ON DISK NOW, plus the running interpreter's
_collections_abc.py (the inherited mixin methods are public operations of the synced classes).

What extraction drops: docstrings, comments, type annotations, and decorators other than
property / <prop>.setter / classmethod / staticmethod / abstractmethod.  Nothing else.
"""
import ast
import hashlib
import os

REPO = os.environ.get("PYVC_REPO", "/repo")
PKG = "synced_collections"


def strip_docstring(body):
    if body and isinstance(body[0], ast.Expr) and isinstance(getattr(body[0], "value", None), ast.Constant) \
            and isinstance(body[0].value.value, str):
        return body[1:] or [ast.Pass()]
    return body


class FuncInfo:
    def __init__(self, name, node, module, cls=None, kind="function", nested_in=None):
        self.name = name
        self.node = node
        self.module = module          # ModuleInfo
        self.cls = cls                # ClassInfo or None
        self.kind = kind              # function | classmethod | staticmethod | property | setter | lambda
        self.abstract = False
        self.nested_in = nested_in
        self.body = strip_docstring(list(node.body)) if not isinstance(node, ast.Lambda) else None

    @property
    def qualname(self):
        base = f"{self.cls.name}.{self.name}" if self.cls else self.name
        if self.kind == "setter":
            base += ".setter"
        if self.module.stdlib:
            base = "stdlib:" + base
        return base

    def sha(self):
        n = self.node
        if isinstance(n, ast.Lambda):
            txt = ast.dump(n)
        else:
            c = ast.FunctionDef(name=n.name, args=n.args, body=self.body, decorator_list=[], returns=None,
                                type_comment=None, lineno=0, col_offset=0)
            txt = ast.dump(c, annotate_fields=True, include_attributes=False)
        return hashlib.sha256(txt.encode()).hexdigest()[:16]

    def __repr__(self):
        return f"<Func {self.qualname}>"


class ClassInfo:
    def __init__(self, name, node, module):
        self.name = name
        self.node = node
        self.module = module
        self.base_exprs = list(node.bases) if node is not None else []
        self.bases = []               # resolved ClassInfo list
        self.methods = {}             # name -> FuncInfo (function/classmethod/staticmethod)
        self.properties = {}          # name -> {'get': FuncInfo, 'set': FuncInfo}
        self.assigns = {}             # name -> ast expr (class-body assignments)
        self.mro = None
        self.opaque = node is None    # object, exceptions, JSONEncoder, ...

    def __repr__(self):
        return f"<Class {self.name}>"


class ModuleInfo:
    def __init__(self, name, path, stdlib=False):
        self.name = name
        self.path = path
        self.stdlib = stdlib
        self.tree = None
        self.functions = {}
        self.classes = {}
        self.assigns = {}             # module-level NAME = expr
        self.imports = {}             # local name -> (module dotted or None, attr name or None)
        self.try_flags = {}           # names set in try/except ImportError blocks (NUMPY, MONGO, ZARR)


def _decorator_kind(fn):
    kind = "function"
    abstract = False
    for d in fn.decorator_list:
        if isinstance(d, ast.Name):
            if d.id in ("classmethod", "staticmethod", "property"):
                kind = d.id
            elif d.id == "abstractmethod":
                abstract = True
            else:
                raise NotImplementedError(f"decorator {ast.unparse(d)} on {fn.name}")
        elif isinstance(d, ast.Attribute) and d.attr == "setter":
            kind = "setter"
        else:
            raise NotImplementedError(f"decorator {ast.unparse(d)} on {fn.name}")
    return kind, abstract


def _resolve_relative(modname, level, target):
    parts = modname.split(".")
    # module a.b.c at level 1 -> package a.b
    base = parts[: len(parts) - level] if level else []
    if target:
        base = base + target.split(".")
    return ".".join(base)


DESUGARED = {}      # function name -> what the mechanical desugaring did (reported in the evidence)


def desugar_gen_sum(fn):
    """[L-GENSUM] mechanical desugaring, applied to the extracted AST on every run: a function whose whole body is
           return sum(<elt> for <target> in <iter> if <cond> ...)
    (collections.abc.Sequence.count) becomes its explicit accumulation loop
           _acc = 0;  for <target> in <iter>:  if <cond>: _acc += <elt>;  return _acc
    Trusted: `sum` over a one-generator expression starts from 0 and adds the selected elements in iteration order
    (Python language / built-in semantics).  Nothing else of the function is changed; any other shape is left alone
    (and then stays outside the executed subset)."""
    body = strip_docstring(list(fn.body))
    if len(body) != 1 or not isinstance(body[0], ast.Return):
        return False
    v = body[0].value
    if not (isinstance(v, ast.Call) and isinstance(v.func, ast.Name) and v.func.id == "sum" and len(v.args) == 1
            and not v.keywords and isinstance(v.args[0], ast.GeneratorExp) and len(v.args[0].generators) == 1
            and not v.args[0].generators[0].is_async):
        return False
    g = v.args[0].generators[0]
    acc = "_acc"
    add = ast.AugAssign(target=ast.Name(id=acc, ctx=ast.Store()), op=ast.Add(), value=v.args[0].elt)
    inner = [add]
    for c in reversed(g.ifs):
        inner = [ast.If(test=c, body=inner, orelse=[])]
    loop = ast.For(target=g.target, iter=g.iter, body=inner, orelse=[], type_comment=None)
    new = [ast.Assign(targets=[ast.Name(id=acc, ctx=ast.Store())], value=ast.Constant(value=0), type_comment=None),
           loop, ast.Return(value=ast.Name(id=acc, ctx=ast.Load()))]
    ln = body[0].lineno
    for n in new:
        for sub in ast.walk(n):
            if not hasattr(sub, "lineno"):
                sub.lineno = ln
                sub.col_offset = 0
                sub.end_lineno = ln
                sub.end_col_offset = 0
    fn.body = [b for b in fn.body if b is not body[0]] + new
    DESUGARED[fn.name] = "return sum(genexp) -> explicit accumulation loop [L-GENSUM]"
    return True


class Program:
    def __init__(self, repo=REPO, stdlib_abc=None):
        self.repo = repo
        self.modules = {}
        self.classes = {}       # name -> ClassInfo (names are unique in this repo; checked)
        self.functions = {}     # module-level function name -> FuncInfo (unique; checked)
        self.stdlib_abc = stdlib_abc
        self._load_repo()
        if stdlib_abc:
            self._load_stdlib(stdlib_abc)
        self._add_opaque()
        self._link()

    # ------------------------------------------------------------------
    def _load_repo(self):
        root = os.path.join(self.repo, PKG)
        for dp, dn, fns in os.walk(root):
            dn.sort()
            for fn in sorted(fns):
                if not fn.endswith(".py"):
                    continue
                path = os.path.join(dp, fn)
                rel = os.path.relpath(path, self.repo)[:-3].replace(os.sep, ".")
                if rel.endswith(".__init__"):
                    rel = rel[: -len(".__init__")]
                    is_pkg = True
                else:
                    is_pkg = False
                m = ModuleInfo(rel, path)
                m.is_pkg = is_pkg
                m.tree = ast.parse(open(path).read(), filename=path)
                self._scan_module(m)
                self.modules[rel] = m

    def _load_stdlib(self, path):
        m = ModuleInfo("_collections_abc", path, stdlib=True)
        m.is_pkg = False
        m.tree = ast.parse(open(path).read(), filename=path)
        self._scan_module(m, only_classes={"Mapping", "MutableMapping", "Sequence", "MutableSequence", "Collection",
                                           "Sized", "Iterable", "Container", "Reversible"})
        self.modules[m.name] = m

    def _scan_module(self, m, only_classes=None):
        def scan_body(body):
            for st in body:
                if isinstance(st, ast.FunctionDef):
                    kind, abstract = _decorator_kind(st)
                    fi = FuncInfo(st.name, st, m, None, kind)
                    m.functions[st.name] = fi
                elif isinstance(st, ast.ClassDef):
                    if only_classes is not None and st.name not in only_classes:
                        continue
                    self._scan_class(st, m)
                elif isinstance(st, ast.Assign) and len(st.targets) == 1 and isinstance(st.targets[0], ast.Name):
                    m.assigns[st.targets[0].id] = st.value
                elif isinstance(st, ast.AnnAssign) and isinstance(st.target, ast.Name) and st.value is not None:
                    m.assigns[st.target.id] = st.value
                elif isinstance(st, ast.ImportFrom):
                    for a in st.names:
                        target = _resolve_relative(m.name if not getattr(m, "is_pkg", False) else m.name + ".__init__",
                                                   st.level, st.module) if st.level else st.module
                        m.imports[a.asname or a.name] = (target, a.name)
                elif isinstance(st, ast.Import):
                    for a in st.names:
                        m.imports[a.asname or a.name.split(".")[0]] = (a.name, None)
                elif isinstance(st, ast.Try):
                    # try: import X; FLAG = True ... except ImportError: FLAG = False
                    for sub in st.body:
                        if isinstance(sub, (ast.Import, ast.ImportFrom)):
                            scan_body([sub])
                        elif isinstance(sub, ast.Assign) and isinstance(sub.targets[0], ast.Name):
                            m.try_flags[sub.targets[0].id] = ("try", sub.value)
                    for h in st.handlers:
                        for sub in h.body:
                            if isinstance(sub, ast.Assign) and isinstance(sub.targets[0], ast.Name):
                                m.try_flags.setdefault(sub.targets[0].id + "#except", ("except", sub.value))
        scan_body(m.tree.body)

    def _scan_class(self, node, m):
        ci = ClassInfo(node.name, node, m)
        for st in strip_docstring(list(node.body)):
            if isinstance(st, ast.FunctionDef):
                desugar_gen_sum(st)
                kind, abstract = _decorator_kind(st)
                fi = FuncInfo(st.name, st, m, ci, kind)
                fi.abstract = abstract
                if kind == "property":
                    ci.properties.setdefault(st.name, {})["get"] = fi
                elif kind == "setter":
                    ci.properties.setdefault(st.name, {})["set"] = fi
                else:
                    ci.methods[st.name] = fi
                # nested defs (the _thread_lock getter lives inside enable_multithreading)
                for sub in ast.walk(st):
                    if isinstance(sub, ast.FunctionDef) and sub is not st:
                        k2, _ = _decorator_kind(sub)
                        nfi = FuncInfo(sub.name, sub, m, ci, k2, nested_in=fi)
                        ci.__dict__.setdefault("nested", {})[(st.name, sub.name)] = nfi
            elif isinstance(st, ast.Assign) and len(st.targets) == 1 and isinstance(st.targets[0], ast.Name):
                ci.assigns[st.targets[0].id] = st.value
            elif isinstance(st, ast.AnnAssign) and isinstance(st.target, ast.Name) and st.value is not None:
                ci.assigns[st.target.id] = st.value
            elif isinstance(st, (ast.Pass, ast.Expr)):
                pass
            elif isinstance(st, ast.AnnAssign):
                pass
            else:
                raise NotImplementedError(f"class body statement {type(st).__name__} in {node.name}")
        if node.name in m.classes:
            raise RuntimeError("duplicate class " + node.name)
        m.classes[node.name] = ci

    def _add_opaque(self):
        om = ModuleInfo("<opaque>", None, stdlib=True)
        self.modules[om.name] = om
        for n, bases in (("object", []), ("BaseException", ["object"]), ("Exception", ["BaseException"]),
                         ("RuntimeError", ["Exception"]), ("TypeError", ["Exception"]), ("ValueError", ["Exception"]),
                         ("KeyError", ["LookupError"]), ("IndexError", ["LookupError"]), ("LookupError", ["Exception"]),
                         ("AttributeError", ["Exception"]), ("OSError", ["Exception"]), ("UserWarning", ["Exception"]),
                         ("NotImplementedError", ["RuntimeError"]), ("StopIteration", ["Exception"]),
                         ("JSONDecodeError", ["ValueError"]), ("InvalidDocument", ["Exception"]),
                         ("JSONEncoder", ["object"]), ("Hashable", ["object"])):
            ci = ClassInfo(n, None, om)
            ci._opaque_bases = bases
            om.classes[n] = ci

    def _link(self):
        for m in self.modules.values():
            for n, ci in m.classes.items():
                if n in self.classes:
                    raise RuntimeError("class name not unique: " + n)
                self.classes[n] = ci
            if not m.stdlib:
                for n, fi in m.functions.items():
                    if n in self.functions:
                        raise RuntimeError("function name not unique: " + n)
                    self.functions[n] = fi
        for ci in self.classes.values():
            if ci.opaque:
                ci.bases = [self.classes[b] for b in ci._opaque_bases]
                continue
            for b in ci.base_exprs:
                bn = b.id if isinstance(b, ast.Name) else (b.attr if isinstance(b, ast.Attribute) else None)
                if bn is None:
                    raise NotImplementedError("base " + ast.unparse(b))
                if bn not in self.classes:
                    if ci.module.stdlib:
                        continue
                    raise RuntimeError(f"unknown base {bn} of {ci.name}")
                ci.bases.append(self.classes[bn])
            if not ci.bases:
                ci.bases = [self.classes["object"]]
        for ci in self.classes.values():
            self.mro(ci)

    def mro(self, ci):
        if ci.mro is not None:
            return ci.mro
        if not ci.bases:
            ci.mro = [ci]
            return ci.mro
        seqs = [list(self.mro(b)) for b in ci.bases] + [list(ci.bases)]
        res = [ci]
        while True:
            seqs = [s for s in seqs if s]
            if not seqs:
                break
            for s in seqs:
                cand = s[0]
                if not any(cand in t[1:] for t in seqs):
                    break
            else:
                raise RuntimeError("inconsistent MRO for " + ci.name)
            res.append(cand)
            for s in seqs:
                if s[0] is cand:
                    del s[0]
        ci.mro = res
        return res

    # ------------------------------------------------------------------
    def lookup_method(self, ci, name, after=None):
        """(FuncInfo | ('property', dict) | ('const', ast, ClassInfo) | None) per the MRO of ci.
        `after`: start searching after that class in the MRO (super())."""
        mro = ci.mro
        if after is not None:
            mro = mro[mro.index(after) + 1:]
        for k in mro:
            if name in k.methods:
                return k.methods[name]
            if name in k.properties:
                return ("property", k.properties[name], k)
            if name in k.assigns:
                return ("const", k.assigns[name], k)
        return None

    def resolve_global(self, m, name, _depth=0):
        """Resolve a module-level name: ('func', FuncInfo) | ('class', ClassInfo) | ('assign', expr, module) |
        ('module', dotted) | ('flag', name, module) | None."""
        if name in m.functions:
            return ("func", m.functions[name])
        if name in m.classes:
            return ("class", m.classes[name])
        if name in m.assigns:
            return ("assign", m.assigns[name], m)
        if name in m.try_flags:
            return ("flag", name, m)
        if name in m.imports:
            target, attr = m.imports[name]
            if attr is None:
                return ("module", target)
            tm = self.modules.get(target)
            if tm is None and target is not None and target.startswith(PKG):
                # 'from .. import X' targets the package __init__
                tm = self.modules.get(target)
            if tm is not None and _depth < 6:
                r = self.resolve_global(tm, attr, _depth + 1)
                if r is not None:
                    return r
                # a submodule imported from a package
                sub = self.modules.get(target + "." + attr)
                if sub is not None:
                    return ("module", sub.name)
            # stdlib / third-party
            if attr in self.classes and self.classes[attr].module.stdlib:
                return ("class", self.classes[attr])
            return ("ext", target, attr)
        return None

    def all_functions(self):
        out = []
        for m in self.modules.values():
            if m.name == "<opaque>":
                continue
            for fi in m.functions.values():
                out.append(fi)
            for ci in m.classes.values():
                out.extend(ci.methods.values())
                for p in ci.properties.values():
                    out.extend(p.values())
                out.extend(getattr(ci, "nested", {}).values())
        return out


if __name__ == "__main__":
    import sys
    p = Program(stdlib_abc=sys.argv[1] if len(sys.argv) > 1 else None)
    print(len(p.modules), "modules", len(p.classes), "classes", len(p.all_functions()), "functions")
    for n in ("JSONDict", "BufferedJSONAttrDict", "MemoryBufferedJSONList"):
        print(n, [c.name for c in p.classes[n].mro])
