"""Trusted specifications (DESIGN.md 3.4): built-in containers, locks, stdlib, class-creation-time statics.

Everything in this file is ASSUMED, not proved.  Labels used in evidence `trusted_base`:
[SPEC-BUILTIN] [N-VIEW] [L-COMP] [E-LOCK] [E-JSON] [E-FS] [E-CLIENT] [E-ABC].
"""
import ast

import z3

from . import smt
from .smt import Val, VNone, VAbsent, VBool, VInt, VStr, VRef, F, OP, IntS, BoolS
from .values import (Z, Bv, Iv, Const, ObjV, FuncV, LambdaV, BoundV, ClassV, BuiltinV, ModuleV, SuperV, TupleV, KwV, PyDictV,
                     LockV, LocksTableV, ExcV, ResolverV, Raise, Unsupported, State, to_val, as_int)

# ----------------------------------------------------------------------------------------------
# operation table of built-in dict / list: name -> spec
#   raises: list of (exception class name | callable giving a z3 Int type id, cond(c, args) -> Bool)
#   result: fn(c, args) -> z3 term (Val / Bool / Int) | None
#   new:    fn(c, args) -> Val | None (content after the operation)
# `c` is the container content (a Val); args are Val terms.


def _op(name, n):
    return OP(name, n)


dict_has = F("dict_has", Val, Val, BoolS)
dict_get = _op("dict_get", 2)
dict_set = _op("dict_set", 3)
dict_del = _op("dict_del", 2)
dict_empty = OP("dict_empty", 0)()
dict_len = F("dict_len", Val, IntS)
dict_keys = _op("dict_keys", 1)
dict_values = _op("dict_values", 1)
dict_items = _op("dict_items", 1)
dict_iter = _op("dict_iter", 1)
dict_popitem_pair = _op("dict_popitem_pair", 1)
dict_popitem_rest = _op("dict_popitem_rest", 1)
dict_merge = _op("dict_merge", 2)
dict_from = _op("dict_from", 1)          # dict(iterable of pairs)
py_repr = _op("py_repr", 1)
py_str = _op("py_str", 1)

list_idx_ok = F("list_idx_ok", Val, Val, BoolS)
list_get = _op("list_get", 2)
list_set_ok = F("list_set_ok", Val, Val, Val, BoolS)
list_set_exc = F("list_set_exc", Val, Val, Val, IntS)
list_set = _op("list_set", 3)
list_del_ok = F("list_del_ok", Val, Val, BoolS)
list_del = _op("list_del", 2)
list_insert = _op("list_insert", 3)
list_append = _op("list_append", 2)
list_extend = _op("list_extend", 2)
list_contains = F("list_contains", Val, Val, BoolS)
list_index = F("list_index", Val, Val, IntS)      # least index of an element that is (or ==) the value
# list.index(x, start, stop) over normalised bounds (VInt lo, VInt hi): is there / the least i with lo <= i < hi, 0 <= i < len
list_contains_in = F("list_contains_in", Val, Val, Val, Val, BoolS)
list_index_in = F("list_index_in", Val, Val, Val, Val, IntS)
list_count = F("list_count", Val, Val, IntS)      # number of elements that are (or ==) the value
list_count_prefix = F("list_count_prefix", Val, Val, IntS, IntS)   # ... among the first i elements (definitional)
list_remove = _op("list_remove", 2)
list_pop_ok = F("list_pop_ok", Val, Val, BoolS)
list_pop_item = _op("list_pop_item", 2)
list_pop_rest = _op("list_pop_rest", 2)
list_reverse = _op("list_reverse", 1)
list_empty = OP("list_empty", 0)()
list_len = F("list_len", Val, IntS)
list_iter = _op("list_iter", 1)
list_reversed = _op("list_reversed", 1)
list_of = _op("list_of", 1)              # list(iterable)
list_slice_from = _op("list_slice_from", 2)
mk_slice = _op("mk_slice", 3)
list_cmp = {n: F("list_" + n, Val, Val, BoolS) for n in ("lt", "le", "gt", "ge")}
plain = OP("plain", 1)                   # plain view of an ARGUMENT value (identity on JSON data; tuples -> lists)
put_in = OP("put_in", 3)                 # [L-COMP] replace the sub-value at the position of an attached node
# Inv.node (shape): a node's container holds only scalars and references to nodes (no raw nested containers)
node_items_ok = F("node_items_ok", Val, BoolS)
sub_of = OP("sub_of", 2)                 # [L-COMP] select the sub-value at the position of an attached node

KE, IE, VE, TE = "KeyError", "IndexError", "ValueError", "TypeError"

DICT_OPS = {
    "getitem": dict(raises=[(KE, lambda c, a: z3.Not(dict_has(c, a[0])))], result=lambda c, a: dict_get(c, a[0])),
    "setitem": dict(new=lambda c, a: dict_set(c, a[0], a[1])),
    "delitem": dict(raises=[(KE, lambda c, a: z3.Not(dict_has(c, a[0])))], new=lambda c, a: dict_del(c, a[0])),
    "contains": dict(result=lambda c, a: dict_has(c, a[0])),
    "get": dict(result=lambda c, a: z3.If(dict_has(c, a[0]), dict_get(c, a[0]), a[1])),
    "pop": dict(result=lambda c, a: z3.If(dict_has(c, a[0]), dict_get(c, a[0]), a[1]),
                new=lambda c, a: z3.If(dict_has(c, a[0]), dict_del(c, a[0]), c)),
    "popitem": dict(raises=[(KE, lambda c, a: dict_len(c) == 0)], result=lambda c, a: dict_popitem_pair(c),
                    new=lambda c, a: dict_popitem_rest(c)),
    "clear": dict(new=lambda c, a: dict_empty),
    "keys": dict(result=lambda c, a: dict_keys(c)),
    "values": dict(result=lambda c, a: dict_values(c)),
    "items": dict(result=lambda c, a: dict_items(c)),
    "iter": dict(result=lambda c, a: dict_iter(c)),
    "len": dict(result=lambda c, a: dict_len(c)),
    "repr": dict(result=lambda c, a: py_repr(c)),
    "str": dict(result=lambda c, a: py_str(c)),
}

def _index_bounds(c, a):
    n = list_len(c)
    def norm(t):
        i = Val.i(t)
        return z3.If(i < 0, z3.If(n + i >= 0, n + i, z3.IntVal(0)), i)
    lo = norm(a[1])
    hi = norm(a[2]) if len(a) > 2 else n
    return VInt(lo), VInt(hi)


LIST_OPS = {
    "getitem": dict(raises=[(IE, lambda c, a: z3.Not(list_idx_ok(c, a[0])))], result=lambda c, a: list_get(c, a[0])),
    "setitem": dict(raises=[(lambda c, a: list_set_exc(c, a[0], a[1]), lambda c, a: z3.Not(list_set_ok(c, a[0], a[1])))],
                    new=lambda c, a: list_set(c, a[0], a[1])),
    "delitem": dict(raises=[(IE, lambda c, a: z3.Not(list_del_ok(c, a[0])))], new=lambda c, a: list_del(c, a[0])),
    "insert": dict(new=lambda c, a: list_insert(c, a[0], a[1])),
    "append": dict(new=lambda c, a: list_append(c, a[0])),
    "extend": dict(new=lambda c, a: list_extend(c, a[0])),
    "iadd": dict(new=lambda c, a: list_extend(c, a[0])),
    "contains": dict(result=lambda c, a: list_contains(c, a[0])),
    "remove": dict(raises=[(VE, lambda c, a: z3.Not(list_contains(c, a[0])))], new=lambda c, a: list_remove(c, a[0])),
    # list.index(x[, start[, stop]]): negative bounds are taken relative to the length and clamped at 0
    "index": dict(raises=[(VE, lambda c, a: z3.Not(list_contains(c, a[0]) if len(a) == 1 else
                                                   list_contains_in(c, a[0], *_index_bounds(c, a))))],
                  result=lambda c, a: list_index(c, a[0]) if len(a) == 1 else list_index_in(c, a[0], *_index_bounds(c, a))),
    "count": dict(result=lambda c, a: list_count(c, a[0])),
    "pop": dict(raises=[(IE, lambda c, a: z3.Not(list_pop_ok(c, a[0])))], result=lambda c, a: list_pop_item(c, a[0]),
                new=lambda c, a: list_pop_rest(c, a[0])),
    "reverse": dict(new=lambda c, a: list_reverse(c)),
    "clear": dict(new=lambda c, a: list_empty),
    "len": dict(result=lambda c, a: list_len(c)),
    "iter": dict(result=lambda c, a: list_iter(c)),
    "reversed": dict(result=lambda c, a: list_reversed(c)),
    "repr": dict(result=lambda c, a: py_repr(c)),
    "str": dict(result=lambda c, a: py_str(c)),
}

# set_exc of a list setitem is one of these classes
LIST_SET_EXCS = (IE, VE, TE)

METHOD_TO_OP = {
    "__getitem__": "getitem", "__setitem__": "setitem", "__delitem__": "delitem", "__contains__": "contains",
    "get": "get", "pop": "pop", "popitem": "popitem", "clear": "clear", "keys": "keys", "values": "values",
    "items": "items", "insert": "insert", "append": "append", "extend": "extend", "remove": "remove",
    "reverse": "reverse",
}


def x_dom(st, dom):
    return st.g[dom]


def addr_of(term):
    return Val.addr(term)


class Intrinsics:
    def __init__(self, eng):
        self.eng = eng
        eng.intr = self

    # ------------------------------------------------------------------ ghost helpers
    def iv(self, st, v):
        """[N-VIEW] plain image of a value: a scalar / plain value is itself, a node reference is that node's
        view, and a python-side *lifted* value (a container literal built from node items, meta['lv']) is the
        plain image recorded when it was built."""
        if isinstance(v, ObjV):
            return st.sel("View", z3.IntVal(v.addr))
        if isinstance(v, Z):
            if "lv" in v.meta:
                return v.meta["lv"]
            if v.meta.get("plain"):
                return v.term
            t = v.term
        elif z3.is_expr(v):
            t = v
        else:
            return to_val(v)
        return z3.If(smt.is_VRef(t), st.sel("View", addr_of(t)), t)

    def root_of(self, st, node):
        r = st.rec(node).fields.get("_root")
        if isinstance(r, ObjV):
            return r
        return node

    def owner_view(self, st, owner):
        return st.sel("View", z3.IntVal(owner.addr))

    def cell_content(self, st, ref):
        return st.sel("Cell", addr_of(ref.term))

    def cell_write(self, st, ref, new, opname, viewnew, args, vals=None):
        d = addr_of(ref.term)
        st.upd("Cell", d, new)
        owner = ref.meta.get("owner")
        if owner is not None:
            self.eng.note("[N-VIEW]")
            n = z3.IntVal(owner.addr)
            oldview = st.sel("View", n)
            st.upd("View", n, viewnew)
            if "CView" in st.g:
                st.upd("CView", d, viewnew)
            root = self.root_of(st, owner)
            if root.addr != owner.addr:
                self.eng.note("[L-COMP]")
                rn = z3.IntVal(root.addr)
                st.upd("View", rn, put_in(st.sel("View", rn), VRef(n), viewnew))
            # other known nodes whose _data may alias this cell (shared-memory buffer)
            for a, rec in st.objs.items():
                if a == owner.addr or a == root.addr:
                    continue
                dv = rec.fields.get("_data")
                if isinstance(dv, Z) and rec.tag.startswith("node"):
                    od = addr_of(dv.term)
                    an = z3.IntVal(a)
                    st.upd("View", an, z3.If(od == d, viewnew, st.sel("View", an)))
            st.event("cell-write", owner.addr, opname, oldview, viewnew, tuple(args), tuple(vals or ()))
        else:
            st.event("cell-write", None, opname, None, None, tuple(args), tuple(vals or ()))
        for h in self.eng.hooks:
            h("cell-write", st, ref=ref, op=opname, owner=owner)

    def cell_op(self, st, ref, kind, opname, args):
        """Apply a built-in operation to the container cell `ref` (hint = kind)."""
        table = DICT_OPS if kind == "dict" else LIST_OPS
        spec = table[opname]
        self.eng.note("[SPEC-BUILTIN]")
        c = self.cell_content(st, ref)
        a = [to_val(x) for x in args]
        owner = ref.meta.get("owner")
        view = self.owner_view(st, owner) if owner is not None else None
        va = [self.iv(st, x) for x in args] if owner is not None else None
        outs = []
        cur = st
        for (exc, cond) in spec.get("raises", []):
            cnd = cond(c, a)
            if owner is not None:            # [N-VIEW] the built-in on the plain view raises in the same cases
                cur.assume(cnd == cond(view, va))
                self.eng.note("[N-VIEW]")
            nxt = None
            for (x, side) in self.eng.fork(cur, cnd, ("builtin-raises", kind, opname)):
                if side:
                    if callable(exc):
                        e = ExcV(exc(c, a), label="list-setitem-error")
                        x.assume(smt.or_([e.cls_term == z3.IntVal(smt.tid_of(n)) for n in LIST_SET_EXCS]))
                        x.ghost["list_set_exc"] = e.cls_term
                        if owner is not None:
                            x.assume(exc(c, a) == exc(view, va))
                    else:
                        e = self.eng.mk_exc(exc)
                    x.event("builtin-raise", owner.addr if owner else None, opname)
                    outs.append((x, Raise(e)))
                else:
                    nxt = x
            if nxt is None:
                return outs
            cur = nxt
        res = None
        if "result" in spec:
            r = spec["result"](c, a)
            if owner is not None:
                rv = spec["result"](view, va)
                if r.sort() == Val:
                    cur.assume(self.iv(cur, r) == rv)
                    # Inv.node (tree shape): an item of a node's container is a scalar or a DESCENDANT node,
                    # never the node itself, its root, or any other python-side known object
                    cur.assume(z3.Implies(smt.is_VRef(r), addr_of(r) > 1000))
                else:
                    cur.assume(r == rv)
            if r.sort() == BoolS:
                res = Bv(r)
            elif r.sort() == IntS:
                if owner is not None or True:
                    cur.assume(r >= 0)
                res = Iv(r)
            else:
                res = Z(r, None, {"item_of": owner, "op": opname, "cellkind": kind, "cell_content": c,
                                  "key": (a[0] if a else None), "cell_ref": ref})
                if owner is not None and r.sort() == Val:
                    # Inv.node: a reference stored in a node's container is a synced node of the node's family
                    cur.assume(z3.Implies(smt.is_VRef(r), smt.isinstance_(r, "SyncedCollection")))
        if "new" in spec:
            new = spec["new"](c, a)
            viewnew = spec["new"](view, va) if owner is not None else None
            self.cell_write(cur, ref, new, opname, viewnew, a, args)
        else:
            cur.event("cell-read", owner.addr if owner else None, opname)
            for h in self.eng.hooks:
                h("cell-read", cur, ref=ref, op=opname, owner=owner)
        outs.append((cur, res if res is not None else Const(None)))
        return outs

    # ------------------------------------------------------------------ subscripts
    def kind_of(self, v):
        if isinstance(v, Z) and v.hint in ("dict", "list"):
            return v.hint
        return None

    def getitem(self, st, obj, key):
        k = self.kind_of(obj)
        if k:
            return self.cell_op(st, obj, k, "getitem", [key])
        if isinstance(obj, LocksTableV):
            dom = st.g["LockDom:" + obj.cls_name]
            kv = to_val(key)
            outs = []
            for (x, side) in self.eng.fork(st, z3.Select(dom, kv), ("locks-has", obj.cls_name)):
                if side:
                    lid = F("lockid", IntS, Val, IntS)(z3.IntVal(smt.tid_of(obj.cls_name)), kv)
                    outs.append((x, LockV(lid, f"{obj.cls_name}._locks[{kv}]")))
                else:
                    outs.append((x, Raise(self.eng.mk_exc("KeyError"))))
            return outs
        if isinstance(obj, TupleV) and isinstance(key, Const) and isinstance(key.v, int):
            return [(st, obj.items[key.v])]
        if isinstance(obj, BuiltinV) and obj.name == "registry":
            # SyncedCollection.registry[backend]: filled at class-creation time, read by reflection [E-ABC]
            if not (isinstance(key, Const) and isinstance(key.v, str)):
                raise Unsupported("registry subscript with a symbolic backend")
            names = self.eng.R["registry"].get(key.v, [])
            return [(st, TupleV([ClassV(self.eng.P.classes[n]) for n in names]))]
        if isinstance(obj, ObjV):
            return self.eng.call_method(st, obj, "__getitem__", [key], {})
        if isinstance(obj, Z):
            return self.plain_getitem(st, obj, key)
        raise Unsupported(f"subscript load on {obj!r}")

    def plain_getitem(self, st, obj, key):
        """Subscript of a plain (value-semantic) argument such as data[i], data[len(self):], blob['data']."""
        self.eng.note("[SPEC-BUILTIN]")
        kt = to_val(key)
        from contracts.core import is_mapping
        if isinstance(key, Z) and key.hint == "slice":
            parts = key.meta.get("parts", [])
            if len(parts) == 3 and isinstance(parts[1], Const) and parts[1].v is None and isinstance(parts[2], Const) \
                    and parts[2].v is None and not (isinstance(parts[0], Const) and parts[0].v is None):
                # x[n:]
                r = list_slice_from(obj.term, VInt(as_int(parts[0])))
                return [(st, Z(r, None, {"from": obj, "plain": obj.meta.get("plain", False), "fresh_container": True}))]
        if isinstance(key, Iv) or (isinstance(key, Const) and isinstance(key.v, int)):
            from .loops import seq_at
            r = seq_at(obj.term, as_int(key))
        else:
            r = z3.If(is_mapping(obj.term), dict_get(obj.term, kt), F("plain_getitem", Val, Val, Val)(obj.term, kt))
        if obj.meta.get("plain", False):
            st.assume(z3.Not(smt.is_VRef(r)))      # the items of a plain value are plain values
        return [(st, Z(r, None, {"from": obj, "plain": obj.meta.get("plain", False)}))]

    def setitem(self, st, obj, key, val):
        k = self.kind_of(obj)
        if k:
            return self.cell_op(st, obj, k, "setitem", [key, val])
        if isinstance(obj, LocksTableV):
            dom = "LockDom:" + obj.cls_name
            st.g[dom] = z3.Store(st.g[dom], to_val(key), z3.BoolVal(True))
            st.event("locks-add", obj.cls_name, to_val(key))
            return [(st, Const(None))]
        if isinstance(obj, ObjV):
            return self.eng.call_method(st, obj, "__setitem__", [key, val], {})
        raise Unsupported(f"subscript store on {obj!r}")

    def delitem(self, st, obj, key):
        k = self.kind_of(obj)
        if k:
            return self.cell_op(st, obj, k, "delitem", [key])
        if isinstance(obj, LocksTableV):
            outs = []
            for (x, r) in self.b_lockstable_pop(self.eng, st, BuiltinV("lockstable.pop", recv=obj), [key], {}):
                outs.append((x, r if isinstance(r, Raise) else Const(None)))
            return outs
        if isinstance(obj, ObjV):
            return self.eng.call_method(st, obj, "__delitem__", [key], {})
        raise Unsupported(f"del subscript on {obj!r}")

    def make_slice(self, st, parts):
        return Z(mk_slice(*[to_val(p) for p in parts]), "slice", {"plain": True, "parts": list(parts)})

    def unpack(self, st, val, n):
        if isinstance(val, TupleV):
            if len(val.items) != n:
                raise Unsupported("tuple unpack arity")
            return val.items
        if isinstance(val, Z):
            parts = [Z(F(f"unpack{n}_{i}", Val, Val)(val.term)) for i in range(n)]
            ref = val.meta.get("cell_ref")
            static = ref.meta.get("static") if isinstance(ref, Z) else None
            if n == 2 and val.meta.get("op") == "popitem" and static is not None and static[1] == "_buffered_collections":
                # (id, collection) popped from a class's registry of buffered collections
                parts = [Z(parts[0].term, None, {"plain": True}),
                         Z(parts[1].term, "node", {"registered_of": static[0], "registry_content": val.meta.get("cell_content")})]
            return parts
        raise Unsupported("unpack of " + repr(val))

    # ------------------------------------------------------------------ literals / displays / comprehensions
    def list_literal(self, st, vs):
        t = list_empty
        for v in vs:
            t = list_append(t, to_val(v))
        return Z(t, None, {"fresh_container": True})

    def dict_display(self, eng, e, st):
        """{k: v, **m, ...}.  Two terms are built in lock-step: the raw value (its items may be node references
        when a node's own container is merged in) and its plain image [N-VIEW]."""
        cur = [(st, (dict_empty, dict_empty, False))]
        const_items = {}
        for k, v in zip(e.keys, e.values):
            nxt = []
            for (x, acc) in cur:
                if isinstance(acc, Raise):
                    nxt.append((x, acc))
                    continue
                t, tv, lifted = acc

                def merge(a, b):
                    return b if a.eq(dict_empty) else dict_merge(a, b)
                if k is None:        # **mapping
                    for (y, mv) in eng.ev(v, x):
                        if isinstance(mv, Raise):
                            nxt.append((y, mv))
                        elif isinstance(mv, KwV):
                            t2, tv2 = t, tv
                            for kk, vv in mv.d.items():
                                t2 = dict_set(t2, VStr(z3.StringVal(kk)), to_val(vv))
                                tv2 = dict_set(tv2, VStr(z3.StringVal(kk)), self.iv(y, vv))
                            if getattr(mv, "symbolic", None) is not None:
                                t2 = merge(t2, mv.symbolic)
                                tv2 = merge(tv2, mv.symbolic)
                            nxt.append((y, (t2, tv2, lifted)))
                        elif self.kind_of(mv) == "dict":
                            c = self.cell_content(y, mv)
                            owner = mv.meta.get("owner")
                            y.event("cell-read", owner.addr if owner else None, "merge-src")
                            for h in eng.hooks:
                                h("cell-read", y, ref=mv, op="merge-src", owner=owner)
                            vw = self.owner_view(y, owner) if owner is not None else c
                            nxt.append((y, (merge(t, c), merge(tv, vw), lifted or owner is not None)))
                        else:
                            mt = to_val(mv)
                            nxt.append((y, (merge(t, mt), merge(tv, self.iv(y, mv)), lifted)))
                else:
                    for (y, kv) in eng.ev(k, x):
                        if isinstance(kv, Raise):
                            nxt.append((y, kv))
                            continue
                        for (z, vv) in eng.ev(v, y):
                            if isinstance(vv, Raise):
                                nxt.append((z, vv))
                            else:
                                if isinstance(kv, Const) and isinstance(kv.v, str):
                                    const_items[kv.v] = self.iv(z, vv)
                                nxt.append((z, (dict_set(t, to_val(kv), to_val(vv)),
                                                dict_set(tv, self.iv(z, kv), self.iv(z, vv)), lifted)))
            cur = nxt
        outs = []
        for (x, acc) in cur:
            if isinstance(acc, Raise):
                outs.append((x, acc))
                continue
            t, tv, lifted = acc
            meta = {"fresh_container": True, "items": dict(const_items)}
            if lifted:
                self.eng.note("[N-VIEW]")
                meta["lv"] = tv
            elif t.eq(tv):
                meta["plain"] = True
            outs.append((x, Z(t, None, meta)))
        return outs

    def comprehension(self, eng, e, st, kind):
        """Only the `_from_base` map pattern is handled in the protocol tier:
              [self._from_base(data=value, parent=self) for value in xs]
        via the lifted contract of _from_base (the per-element contract is proved in the tree tier)."""
        if kind == "list" and len(e.generators) == 1 and not e.generators[0].ifs:
            g = e.generators[0]
            el = e.elt
            if (isinstance(el, ast.Call) and isinstance(el.func, ast.Attribute) and el.func.attr == "_from_base"
                    and isinstance(g.target, ast.Name)):
                # argument must be exactly the loop variable, parent must be `self`
                argexprs = list(el.args) + [k.value for k in el.keywords if k.arg == "data"]
                parents = [k.value for k in el.keywords if k.arg == "parent"]
                if (len(argexprs) == 1 and isinstance(argexprs[0], ast.Name) and argexprs[0].id == g.target.id
                        and len(parents) == 1 and isinstance(parents[0], ast.Name)):
                    outs = []
                    for (x, src) in eng.ev(g.iter, st):
                        if isinstance(src, Raise):
                            outs.append((x, src))
                            continue
                        for (y, recv) in eng.ev(el.func.value, x):
                            for (z, par) in eng.ev(parents[0], y):
                                c = eng.contracts.get("SyncedCollection._from_base.map")
                                if c is None:
                                    raise Unsupported("no lifted _from_base contract")
                                eng.used_contracts.add("SyncedCollection._from_base.map"); eng.note("[L-MAP]")
                                outs.extend(c.apply(eng, z, [recv, src], {"parent": par}))
                    return outs
        if kind == "dict" and len(e.generators) == 1 and not e.generators[0].ifs:
            g = e.generators[0]
            el = e.value
            if (isinstance(el, ast.Call) and isinstance(el.func, ast.Attribute) and el.func.attr == "_from_base"
                    and isinstance(g.target, ast.Tuple) and len(g.target.elts) == 2
                    and all(isinstance(t, ast.Name) for t in g.target.elts)
                    and isinstance(e.key, ast.Name) and e.key.id == g.target.elts[0].id
                    and isinstance(g.iter, ast.Call) and isinstance(g.iter.func, ast.Attribute)
                    and g.iter.func.attr == "items" and not g.iter.args):
                argexprs = list(el.args) + [k.value for k in el.keywords if k.arg == "data"]
                parents = [k.value for k in el.keywords if k.arg == "parent"]
                if (len(argexprs) == 1 and isinstance(argexprs[0], ast.Name) and argexprs[0].id == g.target.elts[1].id
                        and len(parents) == 1 and isinstance(parents[0], ast.Name)):
                    outs = []
                    for (x, src) in eng.ev(g.iter.func.value, st):     # the mapping whose items are converted
                        if isinstance(src, Raise):
                            outs.append((x, src))
                            continue
                        for (y, recv) in eng.ev(el.func.value, x):
                            for (z, par) in eng.ev(parents[0], y):
                                c = eng.contracts.get("SyncedCollection._from_base.map")
                                eng.used_contracts.add("SyncedCollection._from_base.map"); eng.note("[L-MAP]")
                                outs.extend(c.apply(eng, z, [recv, src], {"parent": par, "$kind": Const("dict")}))
                    return outs
        if kind == "list" and len(e.generators) == 1 and len(e.generators[0].ifs) == 1:
            r = self.filter_comprehension(eng, e, st)
            if r is not None:
                return r
        h = getattr(self, "comprehension_ext", None)
        if h is not None:
            return h(eng, e, st, kind)
        raise Unsupported("comprehension: " + ast.unparse(e))

    # ------------------------------------------------------------------ value-semantic local containers
    def is_local_container(self, st, name):
        v = st.loc.get(name)
        return isinstance(v, Z) and v.hint is None and v.meta.get("fresh_container") and not v.meta.get("escaped")

    def local_setitem(self, st, cont, key, val):
        """converted[key] = value on a container that lives only in a local variable."""
        self.eng.note("[SPEC-BUILTIN]")
        t = dict_set(cont.term, to_val(key), to_val(val))
        meta = dict(cont.meta)
        meta.pop("plain", None)
        lv = cont.meta.get("lv", cont.term if cont.meta.get("plain") or cont.term.eq(dict_empty) else None)
        if lv is not None:
            meta["lv"] = dict_set(lv, self.iv(st, key), self.iv(st, val))
        return Z(t, None, meta)

    def local_method(self, st, cont, name, args):
        self.eng.note("[SPEC-BUILTIN]")
        f = {"append": list_append, "extend": list_extend}[name]
        t = f(cont.term, to_val(args[0]))
        meta = dict(cont.meta)
        meta.pop("plain", None)
        lv = cont.meta.get("lv", cont.term if cont.meta.get("plain") or cont.term.eq(list_empty) else None)
        if lv is not None:
            meta["lv"] = f(lv, self.iv(st, args[0]))
        return Z(t, None, meta)

    def filter_comprehension(self, eng, e, st):
        """[x for x in <dict container> if x not in <mapping>]: the keys of the container that are not keys of the
        mapping — a fresh list T with (trusted, [SPEC-BUILTIN]) pointwise characterisation
             k in T  <=>  k in container and k not in mapping          (elements pairwise distinct)"""
        g = e.generators[0]
        cond = g.ifs[0]
        if not (isinstance(e.elt, ast.Name) and isinstance(g.target, ast.Name) and e.elt.id == g.target.id
                and isinstance(cond, ast.Compare) and len(cond.ops) == 1 and isinstance(cond.ops[0], ast.NotIn)
                and isinstance(cond.left, ast.Name) and cond.left.id == g.target.id):
            return None
        outs = []
        for (x, src) in eng.ev(g.iter, st):
            if isinstance(src, Raise):
                outs.append((x, src))
                continue
            if self.kind_of(src) != "dict":
                return None
            for (y, other) in eng.ev(cond.comparators[0], x):
                if isinstance(other, Raise):
                    outs.append((y, other))
                    continue
                rs = self.cell_op(y, src, "dict", "iter", [])
                z, _ = rs[-1]
                c = self.cell_content(z, src)
                o = to_val(other)
                T = smt.fresh("filtered")
                from contracts.core import is_mapping
                member = lambda k: z3.And(dict_has(c, k), z3.Not(z3.If(is_mapping(o), dict_has(o, k),
                                                                       F("plain_contains", Val, Val, BoolS)(o, k))))
                fidx = F("filter_index", Val, Val, IntS)
                from .loops import seq_at, plain_len

                def key_facts(k):
                    j = fidx(T, k)
                    return [z3.Implies(member(k), z3.And(j >= 0, j < plain_len(T), seq_at(T, j) == k))]
                z.assume(plain_len(T) >= 0)
                outs.append((z, Z(T, None, {"fresh_container": True, "plain": True,
                                            "filter": {"container": c, "other": o, "member": member,
                                                       "elem_facts": lambda ek: [member(ek)], "key_facts": key_facts}})))
        return outs

    def set_view(self, st, owner, newview):
        """Ghost update of a node's plain view, with [L-COMP] for the root of an attached nested node."""
        n = z3.IntVal(owner.addr)
        st.upd("View", n, newview)
        root = self.root_of(st, owner)
        if root.addr != owner.addr and st.rec(owner).tag.startswith("node"):
            rn = z3.IntVal(root.addr)
            st.upd("View", rn, put_in(st.sel("View", rn), VRef(n), newview))

    def concrete_iter(self, st, it):
        if isinstance(it, TupleV):
            return it.items
        if isinstance(it, Const) and isinstance(it.v, (tuple, frozenset)):
            return [Const(x) for x in it.v]
        return None

    def symbolic_for(self, eng, s, st, it):
        h = getattr(self, "symbolic_for_ext", None)
        if h is not None:
            return h(eng, s, st, it)
        raise Unsupported("for loop over symbolic iterable: " + ast.unparse(s.iter))

    def symbolic_while(self, eng, s, st):
        h = getattr(self, "symbolic_while_ext", None)
        if h is not None:
            return h(eng, s, st)
        raise Unsupported("while loop")

    # ------------------------------------------------------------------ operators
    def compare(self, st, op, a, b):
        eng = self.eng
        if isinstance(op, (ast.Is, ast.IsNot)):
            neg = isinstance(op, ast.IsNot)
            r = self.identical(st, a, b)
            return [(st, Bv(z3.Not(r) if neg else r))]
        if isinstance(op, (ast.In, ast.NotIn)):
            neg = isinstance(op, ast.NotIn)
            outs = []
            for (x, r) in self.contains(st, b, a):
                if isinstance(r, Raise):
                    outs.append((x, r))
                else:
                    outs.append((x, Bv(z3.Not(r.term) if neg else r.term)))
            return outs
        if isinstance(op, (ast.Eq, ast.NotEq)):
            neg = isinstance(op, ast.NotEq)
            outs = []
            for (x, r) in self.equals(st, a, b):
                if isinstance(r, Raise):
                    outs.append((x, r))
                else:
                    outs.append((x, Bv(z3.Not(r.term) if neg else r.term)))
            return outs
        # ordering
        name = {ast.Lt: "lt", ast.LtE: "le", ast.Gt: "gt", ast.GtE: "ge"}[type(op)]
        if self.is_intlike(a) and self.is_intlike(b):
            ia, ib = as_int(a), as_int(b)
            return [(st, Bv({"lt": ia < ib, "le": ia <= ib, "gt": ia > ib, "ge": ia >= ib}[name]))]
        if isinstance(a, ObjV) and not isinstance(b, (Iv,)):
            dunder = {"lt": "__lt__", "le": "__le__", "gt": "__gt__", "ge": "__ge__"}[name]
            return eng.call_method(st, a, dunder, [b], {})
        eng.note("[SPEC-BUILTIN]")
        return [(st, Bv(list_cmp[name](to_val(a), to_val(b))))]

    def is_intlike(self, v):
        return isinstance(v, Iv) or (isinstance(v, Const) and isinstance(v.v, int) and not isinstance(v.v, bool))

    def identical(self, st, a, b):
        if isinstance(a, Const) and isinstance(b, Const):
            return z3.BoolVal(a.v is b.v)
        if isinstance(a, ObjV) and isinstance(b, ObjV):
            return z3.BoolVal(a.addr == b.addr)
        if isinstance(a, (ClassV,)) and isinstance(b, ClassV):
            return z3.BoolVal(a.ci is b.ci)
        for x, y in ((a, b), (b, a)):
            # `type(v) is dict` (exact built-in type test)
            if isinstance(y, BuiltinV) and y.name in ("dict", "list", "str", "int", "float", "bool", "tuple") \
                    and isinstance(x, Z) and x.meta.get("type_of") is not None:
                return smt.tyof(to_val(x.meta["type_of"])) == z3.IntVal(smt.tid_of(y.name))
            if isinstance(y, BuiltinV) and isinstance(x, BuiltinV):
                return z3.BoolVal(x.name == y.name)
        for x, y in ((a, b), (b, a)):
            if isinstance(y, Const) and y.v is None:
                if isinstance(x, (ObjV, TupleV, ClassV, FuncV, BoundV, LockV, Iv, Bv, KwV)):
                    return z3.BoolVal(False)
                return to_val(x) == VNone
        return to_val(a) == to_val(b)

    def equals(self, st, a, b):
        """Python == ; -> list of (state, Bv | Raise)"""
        eng = self.eng
        if self.is_intlike(a) and self.is_intlike(b):
            return [(st, Bv(as_int(a) == as_int(b)))]
        if isinstance(a, Const) and isinstance(b, Const):
            return [(st, Bv(a.v == b.v))]
        if isinstance(a, ObjV) and eng.P.lookup_method(st.rec(a).cls, "__eq__") is not None \
                and not eng.P.lookup_method(st.rec(a).cls, "__eq__").cls.opaque:
            return [(x, r if isinstance(r, Raise) else self._as_bv(x, r))
                    for (x, r) in eng.call_method(st, a, "__eq__", [b], {})]
        if isinstance(a, TupleV) and isinstance(b, TupleV):
            if len(a.items) != len(b.items):
                return [(st, Bv(False))]
        ta, tb = to_val(a), to_val(b)
        if isinstance(a, Const) and isinstance(a.v, str) or isinstance(b, Const) and isinstance(b.v, str):
            # comparison with a string literal (type tags): structural
            return [(st, Bv(ta == tb))]
        if (isinstance(a, Z) and a.meta.get("plain") and a.hint in ("str", "bytes")) or \
                (isinstance(b, Z) and b.meta.get("plain") and b.hint in ("str", "bytes")):
            # strings / bytes (hex digests, blobs): equality is equality of the characters
            return [(st, Bv(ta == tb))]
        # values that may be (or contain) synced nodes compare through their plain views [N-VIEW]
        eng.note("[N-VIEW]")
        st.event("pyeq", ta, tb)
        return [(st, Bv(smt.pyeq(self.iv(st, a), self.iv(st, b))))]

    def _as_bv(self, st, r):
        if isinstance(r, Bv):
            return r
        if isinstance(r, Const):
            return Bv(bool(r.v))
        if isinstance(r, Z):
            return Bv(Val.b(r.term))
        raise Unsupported("non-bool result of __eq__")

    def contains(self, st, container, item):
        eng = self.eng
        k = self.kind_of(container)
        if k:
            return self.cell_op(st, container, k, "contains", [item])
        if isinstance(container, Const) and isinstance(container.v, (tuple, frozenset)):
            if isinstance(item, Const):
                return [(st, Bv(item.v in container.v))]
            t = to_val(item)
            return [(st, Bv(smt.or_([t == to_val(Const(x)) for x in container.v])))]
        if isinstance(container, TupleV) and isinstance(item, Z) and "type_of" in item.meta:
            tv = to_val(item.meta["type_of"])
            names = []
            for x in container.items:
                names.extend(self._type_names(x))
            return [(st, Bv(smt.or_([smt.tyof(tv) == z3.IntVal(smt.tid_of(n)) for n in names])))]
        if isinstance(container, TupleV):
            t = to_val(item) if not isinstance(item, ClassV) else None
            if t is None:
                return [(st, Bv(any(isinstance(x, ClassV) and x.ci is item.ci for x in container.items)))]
            return [(st, Bv(smt.or_([t == to_val(x) for x in container.items])))]
        if isinstance(container, LocksTableV):
            return [(st, Bv(z3.Select(st.g["LockDom:" + container.cls_name], to_val(item))))]
        if isinstance(container, Const) and isinstance(container.v, str) and isinstance(item, Const):
            return [(st, Bv(item.v in container.v))]
        if isinstance(item, Const) and isinstance(item.v, str) and isinstance(container, Z):
            # "." in key   (string containment)
            return [(st, Bv(F("str_contains", Val, Val, BoolS)(container.term, to_val(item))))]
        if isinstance(container, ObjV):
            return [(x, r if isinstance(r, Raise) else self._as_bv(x, r))
                    for (x, r) in eng.call_method(st, container, "__contains__", [item], {})]
        if isinstance(container, Z):
            eng.note("[SPEC-BUILTIN]")
            return [(st, Bv(F("plain_contains", Val, Val, BoolS)(container.term, to_val(item))))]
        raise Unsupported(f"`in` on {container!r}")

    def binop(self, st, op, a, b):
        if isinstance(a, Const) and isinstance(b, Const):
            import operator
            f = {ast.Add: operator.add, ast.Sub: operator.sub, ast.Mult: operator.mul, ast.Pow: operator.pow,
                 ast.BitOr: operator.or_, ast.Mod: operator.mod}.get(type(op))
            if f is None:
                raise Unsupported("binop " + type(op).__name__)
            return [(st, Const(f(a.v, b.v)))]
        if self.is_intlike(a) or self.is_intlike(b) or isinstance(a, Iv) or isinstance(b, Iv):
            ia, ib = as_int(a), as_int(b)
            if isinstance(op, ast.Add):
                return [(st, Iv(ia + ib))]
            if isinstance(op, ast.Sub):
                return [(st, Iv(ia - ib))]
            if isinstance(op, ast.Mult):
                return [(st, Iv(ia * ib))]
        if isinstance(op, ast.Add) and isinstance(a, Const) and isinstance(a.v, str):
            return [(st, Z(smt.fresh("strcat"), "str"))]
        raise Unsupported(f"binop {type(op).__name__} on {a!r}, {b!r}")

    def inplace_binop(self, st, op, cur, rhs):
        """-> list of (state, new value | None (mutated in place) | Raise)"""
        k = self.kind_of(cur)
        if k == "list" and isinstance(op, ast.Add):
            outs = []
            for (x, r) in self.cell_op(st, cur, "list", "iadd", [rhs]):
                outs.append((x, r if isinstance(r, Raise) else None))
            return outs
        return self.binop(st, op, cur, rhs)

    # ------------------------------------------------------------------ names / modules / statics
    EXC_NAMES = ("Exception", "BaseException", "RuntimeError", "TypeError", "ValueError", "KeyError", "IndexError",
                 "AttributeError", "OSError", "NotImplementedError", "StopIteration", "LookupError")
    BUILTINS = ("isinstance", "len", "min", "max", "range", "list", "dict", "type", "id", "hasattr", "iter", "reversed",
                "repr", "str", "open", "bool", "int", "float", "frozenset", "tuple", "complex", "issubclass", "print",
                "property", "sum", "NotImplemented")

    def builtin_name(self, n):
        if n in self.EXC_NAMES:
            return ClassV(self.eng.P.classes[n])
        if n in self.BUILTINS:
            return BuiltinV(n)
        return None

    def flag(self, name, module):
        if name == "NUMPY":
            return Const(bool(self.eng.mode.get("numpy", False)))
        if name in ("MONGO", "ZARR"):
            return Const(True)            # the back end is usable only when its package imports
        if name == "_numpy_cache_blocklist":
            return TupleV([BuiltinV("numpy.ndarray")]) if self.eng.mode.get("numpy") else Const(None)
        raise Unsupported("flag " + name)

    def external(self, target, attr):
        P = self.eng.P
        if attr in P.classes and (P.classes[attr].opaque or P.classes[attr].module.stdlib):
            return ClassV(P.classes[attr])
        if target == "threading" and attr == "RLock":
            return BuiltinV("RLock")
        return BuiltinV(f"{target}.{attr}")

    def module_attr(self, mod, name):
        if mod == "errno":
            return Const({"ENOENT": 2}.get(name, 999))
        if mod == "sys" and name == "platform":
            return Const("linux")
        if mod == "json" and name == "JSONDecodeError":
            return ClassV(self.eng.P.classes["JSONDecodeError"])
        if mod == "bson" and name == "errors":
            return ModuleV("bson.errors")
        if mod == "bson.errors" and name == "InvalidDocument":
            return ClassV(self.eng.P.classes["InvalidDocument"])
        if mod == "os" and name == "path":
            return ModuleV("os.path")
        return BuiltinV(f"{mod}.{name}")

    def static(self, eng, st, ci, name):
        """Attributes that class-creation-time code (executed by CPython, read by reflection [E-ABC])
        or run-time class-level stores put on a concrete class."""
        key = (ci.name, name)
        if key in st.statics:
            return st.statics[key]
        info = eng.R["classes"].get(ci.name)
        if info is None:
            return None
        threads = eng.mode.get("threads", False) and info["supports_threading"]
        if name == "_threading_support_is_active":
            return Const(bool(threads))
        if name == "_thread_lock":
            if threads:
                sc = eng.P.classes["SyncedCollection"]
                return ("getter", sc.nested[("enable_multithreading", "_thread_lock")])
            return self.null_context(st)
        # the class-level lock objects are created by class-creation-time code [E-ABC]: their KIND is read from the
        # real classes - a lock that is not a real (R)Lock there is not one in the model either
        stypes = info.get("static_types", {})
        is_lock = lambda n: stypes.get(n) in (None, "RLock", "lock")
        if name == "_locks" and info["supports_threading"]:
            return LocksTableV(ci.name)
        if name == "_cls_lock" and info["supports_threading"]:
            if threads and not is_lock("_cls_lock"):
                return self.null_context(st)
            return LockV(F("clslock", IntS, IntS)(z3.IntVal(smt.tid_of(ci.name))), ci.name + "._cls_lock")
        if name == "_BUFFER_LOCK" and info["own"].get("_BUFFER_LOCK") is not None:
            if threads and info.get("threading_active", True) and not is_lock("_BUFFER_LOCK"):
                return self.null_context(st)
            if threads:
                return LockV(F("bufferlock", IntS, IntS)(z3.IntVal(smt.tid_of(ci.name))), ci.name + "._BUFFER_LOCK")
            return self.null_context(st)
        if name == "_all_validators":
            return TupleV([FuncV(eng.P.functions[v]) for v in info["all_validators"]])
        if name == "registry":
            return None
        return None

    def null_context(self, st):
        for a, rec in st.objs.items():
            if rec.tag == "nullctx":
                return ObjV(a)
        return st.new_obj(self.eng.P.classes["_NullContext"], {}, tag="nullctx")

    def set_static(self, eng, st, ci, name, val):
        st.statics[(ci.name, name)] = val
        st.event("static-store", ci.name, name)
        for h in eng.hooks:
            h("static-store", st, cls=ci, name=name, val=val)
        return [(st, None)]

    def class_const_call(self, eng, ci, name, expr):
        if name == "registry":
            return BuiltinV("registry")
        raise Unsupported(f"class constant {ci.name}.{name} = {ast.unparse(expr)}")

    def annotate_field(self, st, obj, name, val):
        return val

    def on_field_store(self, eng, st, obj, name, val):
        """`node._data = <container>`: the node is re-pointed at another built-in container object."""
        rec = st.rec(obj)
        if name != "_data" or not rec.tag.startswith("node") and not rec.tag.startswith("new:"):
            return val
        if not any(k.name == "SyncedCollection" for k in rec.cls.mro):
            return val
        kind = eng.R["classes"].get(rec.cls.name, {}).get("kind")
        if kind is None:
            return val
        n = z3.IntVal(obj.addr)
        if isinstance(val, Z) and val.hint in ("dict", "list"):
            # an existing container object (shared-memory buffer): alias it
            newv = Z(val.term, kind, dict(val.meta, owner=obj))
            view = st.sel("View", n)
            src_owner = val.meta.get("owner")
            if src_owner is not None:
                view = st.sel("View", z3.IntVal(src_owner.addr))
            elif "view_term" in val.meta:
                view = val.meta["view_term"]
            elif "CView" in st.g:
                view = st.sel("CView", addr_of(val.term))
            st.upd("View", n, view)
            st.event("data-rebound", obj.addr, "alias")
            for h in eng.hooks:
                h("data-rebound", st, obj=obj, how="alias")
            return newv
        # a freshly built container value: a new container object
        eng.note("[N-VIEW]")
        if isinstance(val, Z):
            # Inv.node (shape) at the store site: checked wherever callee preconditions are checked
            ok = z3.BoolVal(True) if val.meta.get("fb_src") is not None else node_items_ok(val.term)
            st.event("requires", "node._data", "Inv.node:container-holds-only-scalars-and-nodes", ok)
            # C16 (provenance) at the store site: the container a node is bound to was CREATED by the library in this
            # call (display, comprehension, dict() / list(), a lifted _from_base product) - never an object that came in
            # from the caller, which the caller could go on mutating
            fresh = bool(val.meta.get("fresh_container")) or val.meta.get("fb_src") is not None
            st.event("requires", "node._data", "C16:container-is-a-fresh-object", z3.BoolVal(fresh))
        d = smt.fresh("newcell", IntS)
        st.assume(d >= st.g["Alloc"])
        st.g["Alloc"] = d + 1
        t = to_val(val)
        st.upd("Cell", d, t)
        st.upd("View", n, self.iv(st, val))
        if "CView" in st.g:
            st.upd("CView", d, self.iv(st, val))
        root = self.root_of(st, obj)
        if root.addr != obj.addr and rec.tag.startswith("node"):
            # [L-COMP] applies to ATTACHED nodes only; a node under construction is not yet part of any tree
            rn = z3.IntVal(root.addr)
            st.upd("View", rn, put_in(st.sel("View", rn), VRef(n), st.sel("View", n)))
        st.event("data-rebound", obj.addr, "new-container")
        for h in eng.hooks:
            h("data-rebound", st, obj=obj, how="new-container")
        return Z(VRef(d), kind, {"owner": obj})

    # ------------------------------------------------------------------ attributes of values
    def value_attr(self, eng, st, obj, name):
        if isinstance(obj, Z) and name == "ndim":
            # an attribute of the INSTANCE (numpy arrays): a function of the value, not of its type
            return [(st, Iv(F("attr_ndim", Val, IntS)(obj.term)))]
        if isinstance(obj, LockV):
            if name in ("__enter__", "__exit__", "acquire", "release"):
                return [(st, BuiltinV("lock." + name, recv=obj))]
        if isinstance(obj, LocksTableV) and name == "pop":
            return [(st, BuiltinV("lockstable.pop", recv=obj))]
        if isinstance(obj, Z) and name == "_data" and obj.meta.get("plain"):
            # a plain value (not a synced node) has no _data attribute
            return [(st, Raise(eng.mk_exc("AttributeError")))]
        if isinstance(obj, Z) and obj.hint == "node" and name in getattr(eng, "virtual_attrs", {}):
            # a data attribute / property of a node of unknown identity: a function of ghost state
            return eng.virtual_attrs[name](eng, st, obj)
        if isinstance(obj, Z):
            if obj.hint == "node" or obj.meta.get("maybe_node") or (obj.meta.get("item_of") is not None
                                                                       and name in eng.virtual):
                c = eng.virtual.get(name)
                if c is None:
                    raise Unsupported(f"call of {name} on a node of unknown class without a virtual contract")
                return [(st, BuiltinV("virtual:" + name, recv=obj))]
            return [(st, BuiltinV("m:" + name, recv=obj))]
        if isinstance(obj, PyDictV) and name == "items":
            return [(st, BuiltinV("pydict.items", recv=obj))]
        if isinstance(obj, ResolverV):
            if name == "get_type":
                return [(st, BuiltinV("resolver.get_type", recv=obj))]
        if isinstance(obj, BuiltinV) and obj.name == "registry":
            return [(st, BuiltinV("registry." + name))]
        if isinstance(obj, (TupleV,)) and name in ("append", "pop"):
            return [(st, BuiltinV("pylist." + name, recv=obj))]
        if isinstance(obj, (Const, KwV)):
            return [(st, BuiltinV("m:" + name, recv=obj))]
        if isinstance(obj, BuiltinV):
            return [(st, BuiltinV(obj.name + "." + name, recv=obj.recv))]
        raise Unsupported(f"attribute {name} of {obj!r}")

    def b_lockstable_pop(self, eng, st, fn, args, kwargs):
        """Class._locks.pop(key[, default]): the table loses the key (KeyError if it is missing and no default)."""
        tab = fn.recv
        dom = "LockDom:" + tab.cls_name
        kv = to_val(args[0])
        outs = []
        for (x, side) in eng.fork(st, z3.Select(x_dom(st, dom), kv), ("locks-has", tab.cls_name)):
            if side:
                lid = F("lockid", IntS, Val, IntS)(z3.IntVal(smt.tid_of(tab.cls_name)), kv)
                x.g[dom] = z3.Store(x.g[dom], kv, z3.BoolVal(False))
                x.event("locks-remove", tab.cls_name, kv)
                outs.append((x, LockV(lid, f"{tab.cls_name}._locks[{kv}]")))
            elif len(args) > 1:
                outs.append((x, args[1]))
            else:
                outs.append((x, Raise(eng.mk_exc("KeyError"))))
        return outs

    def b_resolver_get_type(self, eng, st, fn, args, kwargs):
        """Contract of AbstractTypeResolver.get_type (proved in C19 under the cache invariant): the tag of the
        FIRST identifier that accepts the object, else None — independent of the cache.  The identifier
        lambdas are the real ones and are executed symbolically."""
        res = fn.recv
        obj = args[0]
        outs = []
        cur = [st]
        for (tag, lam) in res.tags:
            nxt = []
            for x in cur:
                for (y, v) in eng.call_lambda(x, lam, [obj]):
                    if isinstance(v, Raise):
                        outs.append((y, v))
                        continue
                    for (z, t) in eng.truthy(y, v):
                        for (w, side) in eng.fork(z, t, ("resolver", res.name, tag)):
                            if side:
                                outs.append((w, Const(tag)))
                            else:
                                nxt.append(w)
            cur = nxt
        for x in cur:
            outs.append((x, Const(None)))
        return outs

    def object_attr(self, eng, st, sup, name):
        if name in ("__setattr__", "__delattr__", "__init__", "__init_subclass__", "default"):
            return [(st, BuiltinV("object." + name, recv=sup.recv))]
        raise Unsupported("super()." + name)

    def instantiate_opaque(self, eng, st, ci, args, kwargs):
        names = {k.name for k in ci.mro}
        if "BaseException" in names:
            return [(st, ExcV(eng.exc_type(ci.name), {"args": TupleV(args)}, label=ci.name))]
        raise Unsupported("instantiate " + ci.name)

    # ------------------------------------------------------------------ calls of built-ins
    def call_builtin(self, eng, st, fn, args, kwargs, node):
        n = fn.name
        h = getattr(self, "b_" + n.replace(".", "_").replace(":", "_"), None)
        if h is not None:
            return h(eng, st, fn, args, kwargs)
        if n.startswith("m:"):
            return self.call_value_method(eng, st, fn.recv, n[2:], args, kwargs)
        if n.startswith("virtual:"):
            c = eng.virtual[n[8:]]
            eng.used_contracts.add("virtual:" + n[8:])
            return c.apply(eng, st, [fn.recv] + list(args), kwargs)
        raise Unsupported(f"call of builtin {n}")

    def call_value_method(self, eng, st, recv, name, args, kwargs):
        k = self.kind_of(recv)
        if k:
            if name in ("get", "pop") and k == "dict":
                a = list(args) + ([Const(None)] if len(args) < 2 else [])
                return self.cell_op(st, recv, k, name, a)
            if name == "pop" and k == "list":
                a = list(args) if args else [Const(-1)]
                return self.cell_op(st, recv, k, "pop", a)
            table = DICT_OPS if k == "dict" else LIST_OPS
            if name in table:
                return self.cell_op(st, recv, k, name, list(args))
            raise Unsupported(f"{k}.{name}")
        if isinstance(recv, Const) and isinstance(recv.v, str):
            if name == "startswith" and isinstance(args[0], Const):
                return [(st, Bv(recv.v.startswith(args[0].v)))]
            if name == "format":
                return [(st, Z(smt.fresh("fmt"), "str"))]
        if isinstance(recv, Z):
            if name == "startswith":
                return [(st, Bv(F("str_startswith", Val, Val, BoolS)(recv.term, to_val(args[0]))))]
            if name in ("items", "keys", "values"):
                eng.note("[SPEC-BUILTIN]")
                f = {"items": dict_items, "keys": dict_keys, "values": dict_values}[name]
                return [(st, Z(f(recv.term), None, {"of": recv, "view": name, "plain": recv.meta.get("plain", False)}))]
            if name in ("encode", "decode"):
                return [(st, Z(F("bytes_" + name, Val, Val)(recv.term), "bytes"))]
        h = getattr(self, "value_method_ext", None)
        if h is not None:
            r = h(eng, st, recv, name, args, kwargs)
            if r is not None:
                return r
        raise Unsupported(f"method {name} on {recv!r}")

    # -- locks  [E-LOCK]
    def b_lock___enter__(self, eng, st, fn, args, kwargs):
        eng.note("[E-LOCK]")
        lid = fn.recv.lid
        st.assume(st.sel("Depth", lid) >= 0)          # a re-entrancy depth is never negative
        st.upd("Depth", lid, st.sel("Depth", lid) + 1)
        st.event("lock-enter", lid, fn.recv.name)
        for h in eng.hooks:
            h("lock-enter", st, lock=fn.recv)
        return [(st, Const(True))]

    def b_lock___exit__(self, eng, st, fn, args, kwargs):
        eng.note("[E-LOCK]")
        lid = fn.recv.lid
        # releasing a lock that is not held raises RuntimeError: recorded as an event and checked by C10
        st.event("lock-exit", lid, fn.recv.name, st.sel("Depth", lid))
        st.upd("Depth", lid, st.sel("Depth", lid) - 1)
        for h in eng.hooks:
            h("lock-exit", st, lock=fn.recv)
        return [(st, Const(None))]

    def b_RLock(self, eng, st, fn, args, kwargs):
        lid = smt.fresh("newlock", IntS)
        st.assume(st.sel("Depth", lid) == 0)
        return [(st, LockV(lid, "RLock()"))]

    # -- object protocol
    def b_object___setattr__(self, eng, st, fn, args, kwargs):
        name, val = args
        if not (isinstance(name, Const) and isinstance(name.v, str)):
            # symbolic attribute name (C18): recorded, the object's own fields are (soundly) left unknown
            st.event("object-setattr-symbolic", fn.recv.addr, to_val(name))
            return [(st, Const(None))]
        outs = []
        for (x, o) in eng.store_field(st, fn.recv, name.v, val):
            outs.append((x, Const(None)))
        return outs

    def b_object___delattr__(self, eng, st, fn, args, kwargs):
        name = args[0]
        if isinstance(name, Const) and name.v in st.rec(fn.recv).fields:
            del st.rec(fn.recv).fields[name.v]
            st.event("field-del", fn.recv.addr, name.v)
            return [(st, Const(None))]
        st.event("object-delattr-symbolic", fn.recv.addr, to_val(name))
        return [(st, Const(None))]

    def b_object_default(self, eng, st, fn, args, kwargs):
        # json.JSONEncoder.default: always TypeError
        return [(st, Raise(eng.mk_exc("TypeError")))]

    def b_object___init__(self, eng, st, fn, args, kwargs):
        return [(st, Const(None))]

    def b_isinstance(self, eng, st, fn, args, kwargs):
        v, t = args
        if isinstance(t, TupleV):
            names = []
            for x in t.items:
                names.extend(self._type_names(x))
        else:
            names = self._type_names(t)
        if isinstance(v, ObjV):
            mro = {k.name for k in st.rec(v).cls.mro}
            return [(st, Bv(any(n in mro for n in names)))]
        if isinstance(v, (Iv,)):
            return [(st, Bv("int" in names))]
        if isinstance(v, Bv):
            return [(st, Bv("bool" in names or "int" in names))]
        if isinstance(v, ExcV):
            return [(st, Bv(eng.exc_isinstance(v, names)))]
        tv = to_val(v)
        eng.note("[E-ABC]")
        alts = []
        for n in names:
            ci = eng.P.classes.get(n)
            if ci is not None and any(k.name == "SyncedCollection" for k in ci.mro):
                # Inv.node: the only object references inside values are synced nodes, and only they are
                # instances of synced classes
                alts.append(z3.And(smt.is_VRef(tv), smt.isinstance_(tv, n)))
            else:
                alts.append(smt.isinstance_(tv, n))
        return [(st, Bv(smt.or_(alts)))]

    def _type_names(self, t):
        if isinstance(t, ClassV):
            return [t.ci.name]
        if isinstance(t, BuiltinV):
            if t.name == "type(None)":
                return ["NoneType"]
            return [t.name]
        if isinstance(t, TupleV):
            out = []
            for x in t.items:
                out.extend(self._type_names(x))
            return out
        raise Unsupported(f"isinstance type argument {t!r}")

    def b_type(self, eng, st, fn, args, kwargs):
        v = args[0]
        if isinstance(v, Z) and v.hint in ("dict", "list"):
            return [(st, BuiltinV(v.hint))]
        if isinstance(v, ObjV):
            return [(st, ClassV(st.rec(v).cls))]
        if isinstance(v, Const) and v.v is None:
            return [(st, BuiltinV("type(None)"))]
        if isinstance(v, ExcV):
            return [(st, Z(F("classobj", IntS, Val)(v.cls_term), "type"))]
        return [(st, Z(F("typeobj", Val, Val)(to_val(v)), "type", {"type_of": v}))]

    def b_len(self, eng, st, fn, args, kwargs):
        v = args[0]
        k = self.kind_of(v)
        if k:
            return self.cell_op(st, v, k, "len", [])
        if isinstance(v, ObjV):
            return eng.call_method(st, v, "__len__", [], {})
        if isinstance(v, TupleV):
            return [(st, Const(len(v.items)))]
        if isinstance(v, Z):
            eng.note("[SPEC-BUILTIN]")
            r = list_len(v.term)
            st.assume(r >= 0)
            return [(st, Iv(r))]
        raise Unsupported("len of " + repr(v))

    def b_iter(self, eng, st, fn, args, kwargs):
        v = args[0]
        k = self.kind_of(v)
        if k:
            return self.cell_op(st, v, k, "iter", [])
        raise Unsupported("iter of " + repr(v))

    def b_reversed(self, eng, st, fn, args, kwargs):
        v = args[0]
        if self.kind_of(v) == "list":
            return self.cell_op(st, v, "list", "reversed", [])
        raise Unsupported("reversed of " + repr(v))

    def b_repr(self, eng, st, fn, args, kwargs):
        v = args[0]
        k = self.kind_of(v)
        if k:
            return self.cell_op(st, v, k, "repr", [])
        return [(st, Z(py_repr(to_val(v)), "str"))]

    def b_str(self, eng, st, fn, args, kwargs):
        v = args[0]
        k = self.kind_of(v)
        if k:
            return self.cell_op(st, v, k, "str", [])
        return [(st, Z(py_str(to_val(v)), "str"))]

    def b_list(self, eng, st, fn, args, kwargs):
        if not args:
            return [(st, Z(list_empty, None, {"fresh_container": True}))]
        v = args[0]
        if isinstance(v, ObjV):
            raise Unsupported("list() of a synced object")
        eng.note("[SPEC-BUILTIN]")
        return [(st, Z(list_of(to_val(v)), None, {"fresh_container": True, "list_of": v}))]

    def b_dict(self, eng, st, fn, args, kwargs):
        if not args:
            return [(st, Z(dict_empty, None, {"fresh_container": True}))]
        eng.note("[SPEC-BUILTIN]")
        # dict(other): TypeError / ValueError when `other` is not an iterable of pairs
        v = to_val(args[0])
        ok = F("dict_from_ok", Val, BoolS)(v)
        outs = []
        for (x, side) in eng.fork(st, ok, ("dict()-ok",)):
            if side:
                outs.append((x, Z(dict_from(v), None, {"fresh_container": True})))
            else:
                e = ExcV(smt.fresh("dictexc", IntS), label="dict()-error")
                x.assume(smt.or_([e.cls_term == z3.IntVal(smt.tid_of(n)) for n in (TE, VE)]))
                outs.append((x, Raise(e)))
        return outs

    def b_range(self, eng, st, fn, args, kwargs):
        if len(args) != 1:
            raise Unsupported("range with several arguments")
        n = as_int(args[0])
        return [(st, Z(F("range_obj", IntS, Val)(n), None, {"range": n, "plain": True}))]

    def b_pydict_items(self, eng, st, fn, args, kwargs):
        return [(st, TupleV([TupleV([k, v]) for k, v in fn.recv.pairs]))]

    def b_numcodecs_JSON(self, eng, st, fn, args, kwargs):
        return [(st, Z(smt.fresh("json_codec"), "ext", {"plain": True}))]

    def b_frozenset(self, eng, st, fn, args, kwargs):
        if not args:
            return [(st, Const(frozenset()))]
        v = args[0]
        if isinstance(v, TupleV) and all(isinstance(x, Const) for x in v.items):
            return [(st, Const(frozenset(x.v for x in v.items)))]
        if isinstance(v, Const) and isinstance(v.v, (tuple, frozenset)):
            return [(st, Const(frozenset(v.v)))]
        raise Unsupported("frozenset() of " + repr(v))

    def b_tuple(self, eng, st, fn, args, kwargs):
        v = args[0]
        if isinstance(v, TupleV):
            return [(st, v)]
        if isinstance(v, Const) and isinstance(v.v, tuple):
            return [(st, TupleV([Const(x) for x in v.v]))]
        raise Unsupported("tuple() of " + repr(v))

    def b_issubclass(self, eng, st, fn, args, kwargs):
        t, ts = args
        names = self._type_names(ts) if not (isinstance(ts, TupleV) and not ts.items) else []
        if isinstance(t, Z) and "type_of" in t.meta:
            tv = to_val(t.meta["type_of"])
            return [(st, Bv(smt.or_([smt.isinstance_(tv, n) for n in names])))]
        if isinstance(t, ClassV):
            mro = {k.name for k in t.ci.mro}
            return [(st, Bv(any(n in mro for n in names)))]
        raise Unsupported("issubclass of " + repr(t))

    def b_max(self, eng, st, fn, args, kwargs):
        a, b = as_int(args[0]), as_int(args[1])
        return [(st, Iv(z3.If(a >= b, a, b)))]

    def b_min(self, eng, st, fn, args, kwargs):
        a, b = as_int(args[0]), as_int(args[1])
        return [(st, Iv(z3.If(a <= b, a, b)))]

    def b_id(self, eng, st, fn, args, kwargs):
        v = args[0]
        if isinstance(v, ObjV):
            return [(st, Iv(z3.IntVal(v.addr)))]
        return [(st, Iv(Val.addr(to_val(v))))]

    def b_bool(self, eng, st, fn, args, kwargs):
        return [(x, Bv(t)) for (x, t) in eng.truthy(st, args[0])]

    def b_hasattr(self, eng, st, fn, args, kwargs):
        raise Unsupported("hasattr")

    def b_warnings_warn(self, eng, st, fn, args, kwargs):
        return [(st, Const(None))]
