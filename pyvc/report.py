"""Verdict, known findings, replay, evidence (DESIGN.md 5.2, 5.5, 8.3)."""
import hashlib
import json
import os
import re
import subprocess
import sys
import time

HERE = os.path.dirname(os.path.abspath(__file__))
ROOT = os.path.dirname(HERE)
REPO = os.environ.get("PYVC_REPO", "/repo")
VENV_PY = os.environ.get("PYVC_PYTHON", "/venv/bin/python")

ASSUMPTION_TEXT = {
    "[SPEC-BUILTIN]": "[SPEC-BUILTIN] operation specs of built-in dict/list/str/len/isinstance (uninterpreted symbols, "
                      "error conditions and results as in pyvc/builtins_spec.py)",
    "[N-VIEW]": "[N-VIEW] the plain view of an in-memory container commutes with the parametric built-in operations",
    "[L-COMP]": "[L-COMP] a change inside an attached child changes the root's view exactly at the child's position "
                "(put_in / sub_of algebra)",
    "[E-LOCK]": "[E-LOCK] threading.RLock: __enter__ depth+1, __exit__ depth-1 (ownership required)",
    "[E-ABC]": "[E-ABC] classes, MROs, registry, validators tables are frozen after import; class-creation-time code "
               "is executed by CPython and read by reflection, not verified",
    "[E-JSON]": "[E-JSON] json.dumps/loads round-trip JSON values type-exactly and fail before producing output",
    "[E-FS]": "[E-FS] POSIX file model at primitive granularity; os.replace atomic; process-crash only",
    "[L-SUM]": "[L-SUM] two facts about finite sums of non-negative per-file contributions, stated as axioms with witness "
               "functions over the uninterpreted Sum(buffer, heap) and instantiated by hand: (zero) Sum >= contrib(f) >= 0 and "
               "Sum > 0 => the witness file contributes; (step) if no file other than f changes its contribution (checked at "
               "the witness file) then Sum changes by f's contribution delta. With them Inv.size (size == Sum) is PROVED at the "
               "exits of _flush x2, _save_to_buffer, _load_from_buffer, set_buffer_capacity, the context exits and of "
               "_flush_buffer (incl. size == 0 after a forced flush); assumed only: Inv.size holds at the internal call sites "
               "of _flush_buffer",
    "[E-UUID]": "[E-UUID] a temp-file name derived from a fresh uuid4 names no existing file and is none of the file names "
                "the program already holds",
    "[E-MD5]": "[E-MD5] hashlib.md5 has no collisions on the blobs compared",
    "[L-MAP]": "[L-MAP] a comprehension `[self._from_base(v, parent=self) for v in xs]` (list and dict form) is used through the "
               "LIFTED contract of _from_base; that contract is proved from the per-element contract against the comprehension's "
               "explicit loop (contracts/lang_models.py, loop rule with a pointwise invariant) - trusted: only that a "
               "comprehension behaves as its explicit loop (PEP 202 / 274)",
    "[A-NOOVERFLOW]": "[A-NOOVERFLOW] the buffered-mode runs of the public methods (C05 transparency) cover executions in which "
                      "the buffer capacity does not force a flush inside the operation; what a forced flush does is covered by "
                      "the clauses of _flush_buffer (it loses nothing, reports conflicts)",
    "[A-REPOINT]": "[A-REPOINT] the `_filename` of a collection does not change while it is registered in the buffer "
                   "(re-pointing a collection inside its buffered context strands its entry - observed, see DESIGN.md 11.5)",
    "[Inv.cover]": "[Inv.cover] every file with a buffer entry has a registered collection bound to it: assumed at entry of "
                   "each buffer function (pointwise, with ghost witnesses), proved at each non-fault exit, required at "
                   "every call of _flush_buffer",
    "[E-CLIENT]": "[E-CLIENT] redis / pymongo / zarr client APIs behave as specified in the trusted contracts of "
                  "_load_from_resource/_save_to_resource for those back ends",
}


def path_signature(rec):
    sig = []
    for p in rec.get("path", []):
        tag, side = p
        tag = [str(x) for x in tag] if isinstance(tag, (list, tuple)) else [str(tag)]
        # line numbers are incidental: keep the structural part only
        tag = [t for t in tag if not t.isdigit()]
        sig.append("/".join(tag) + ("+" if side else "-"))
    for e in rec.get("events", []):
        if e and e[0] in ("lock-enter", "lock-exit", "load", "save", "cell-write", "io-fault", "builtin-raise", "contract"):
            sig.append(str(e[0]) + (":" + str(e[2]) if e[0] in ("contract", "cell-write", "builtin-raise") and len(e) > 2 else ""))
    return hashlib.sha256("|".join(sig).encode()).hexdigest()[:12]


def match_known(known, pid, name, rec):
    for f in known.get("findings", []):
        if f.get("property") != pid:
            continue
        if re.fullmatch(f["obligation"], name):
            sigs = f.get("path_signatures")
            if sigs is None or path_signature(rec) in sigs:
                return f
    return None


def finish(pid, tier, seed, plan, results, wall):
    known = json.load(open(os.path.join(ROOT, "known_findings.json"))) if os.path.exists(
        os.path.join(ROOT, "known_findings.json")) else {"findings": [], "fixed": []}
    errors = []
    obs = {}
    functions = {}
    contracts, inlined, trusted = set(), set(), set()
    paths = 0
    unsupported = []
    solver = {"queries": 0, "time": 0.0, "max": 0.0, "unknown": 0, "cvc5_checked": 0, "cvc5_unsat": 0, "cvc5_unknown": 0,
              "cvc5_error": 0, "cvc5_disagree": 0, "cvc5_time": 0.0}
    samples = []
    bounded = []
    cases = {}
    for r in results:
        for k_, v_ in r.get("cases", {}).items():
            cases[k_] = cases.get(k_, False) or v_
        errors.extend(r["errors"])
        for n, o in r["obs"].items():
            if n in obs:
                for k in ("vcs", "discharged", "trivial", "n_failed", "n_undecided", "time"):
                    obs[n][k] += o[k]
                obs[n]["failed"].extend(o["failed"])
                obs[n]["undecided"].extend(o["undecided"])
            else:
                obs[n] = o
        functions.update(r["functions"])
        contracts.update(r["contracts"])
        inlined.update(r["inlined"])
        trusted.update(r["trusted"])
        paths += r["paths"]
        unsupported.extend(r["unsupported"])
        bounded.extend(r.get("bounded", []))
        for k in ("queries", "time", "unknown", "cvc5_checked", "cvc5_unsat", "cvc5_unknown", "cvc5_error", "cvc5_disagree",
                  "cvc5_time"):
            solver[k] += r.get("solver", {}).get(k, 0)
        solver["max"] = max(solver["max"], r.get("solver", {}).get("max", 0))
        if len(samples) < 4:
            samples.extend(r.get("samples", [])[:2])
    if errors:
        for e in errors[:5]:
            print("CHECKER-ERROR property=%s %s" % (pid, e.strip().splitlines()[0]))
            sys.stderr.write(e + "\n")
        write_evidence(pid, tier, seed, plan, obs, [], [], [], functions, contracts, inlined, trusted, paths, solver,
                       samples, wall, unsupported, bounded, note="checker error: " + errors[0].splitlines()[0])
        return 3
    if not obs:
        print(f"CHECKER-ERROR property={pid} zero obligations were generated")
        return 3
    if solver["cvc5_disagree"]:
        # z3 refuted a VC that cvc5 finds satisfiable: the verdict of this run cannot be trusted either way
        print(f"CHECKER-ERROR property={pid} solver disagreement on {solver['cvc5_disagree']} VC(s) (z3: unsat, cvc5: sat)")
        write_evidence(pid, tier, seed, plan, obs, [], [], [], functions, contracts, inlined, trusted, paths, solver,
                       samples, wall, unsupported, bounded, note="solver disagreement (z3 unsat / cvc5 sat)")
        return 3
    failed = {n: o for n, o in obs.items() if o["n_failed"]}
    undecided = {n: o for n, o in obs.items() if o["n_undecided"] and not o["n_failed"]}
    known_hits, violations = [], []
    for n, o in sorted(failed.items()):
        new = []
        for rec in o["failed"]:
            k = match_known(known, pid, n, rec)
            if k is not None:
                known_hits.append((n, k))
            else:
                new.append(rec)
        if o["n_failed"] > len(o["failed"]) and not new and known_hits:
            pass
        if new:
            violations.append((n, new[0]))
    seen = set()
    for n, k in known_hits:
        key = k.get("id", k["obligation"])
        if key in seen:
            continue
        seen.add(key)
        print(f"KNOWN-FINDING: property={pid} {k.get('id', '')} {k['what']}")
    code = 0
    replays = []
    if violations:
        from replay import replayer
        groups = {}
        for n, rec in violations:
            groups.setdefault(replayer.group_key(pid, n), []).append((n, rec))
        for key, items in sorted(groups.items()):
            path, confirmed = replayer.concretise(pid, key, items, REPO)
            replays.append(path)
            tail = "" if confirmed else " no-failing-input-found"
            print(f"VIOLATION property={pid} replay={path}{tail}")
            for n, rec in items[:6]:
                print(f"   failed obligation: {n}")
        code = 1
    und_notes = []
    if undecided or unsupported:
        from replay import replayer
        for n, o in sorted(undecided.items()):
            ok, info = replayer.bounded_standin(pid, n, REPO)
            bounded.append(info)
            und_notes.append(n)
            if ok is False:
                path = info.get("replay")
                print(f"VIOLATION property={pid} replay={path}")
                code = 1
            elif ok is None:
                print(f"CHECKER-ERROR property={pid} undecided obligation {n} and no bounded stand-in could run")
                code = max(code, 3) if code != 1 else 1
            else:
                print(f"UNDECIDED property={pid} obligation={n} bounded-clean")
        for u in unsupported:
            ok, info = replayer.bounded_standin(pid, u["instance"], REPO, unsupported=u)
            bounded.append(info)
            und_notes.append(u["instance"] + ": " + u["reason"])
            if ok is False:
                print(f"VIOLATION property={pid} replay={info.get('replay')}")
                code = 1
            elif ok is None:
                print(f"CHECKER-ERROR property={pid} unsupported instance {u['instance']} ({u['reason']}) "
                      f"and no bounded stand-in could run")
                code = 3 if code == 0 else code
            else:
                print(f"UNDECIDED property={pid} instance={u['instance']} ({u['reason']}) bounded-clean")
    if cases:
        unreached = sorted(k_ for k_, v_ in cases.items() if not v_)
        plan.setdefault("coverage_extra", {})["vacuity"] = {
            "contract_cases": len(cases), "reached_by_some_path": len(cases) - len(unreached),
            "unreached (guard infeasible for that class / role - informational)": unreached[:40]}
    write_evidence(pid, tier, seed, plan, obs, violations, known_hits, und_notes, functions, contracts, inlined, trusted,
                   paths, solver, samples, wall, unsupported, bounded)
    n_ob = len(obs)
    n_dis = sum(1 for o in obs.values() if not o["n_failed"] and not o["n_undecided"])
    print(f"property={pid} tier={tier} obligations={n_ob} discharged={n_dis} failed={len(failed)} "
          f"undecided={len(undecided)} known-findings={len(seen)} paths={paths} wall={wall:.1f}s")
    return code


def write_evidence(pid, tier, seed, plan, obs, violations, known_hits, und_notes, functions, contracts, inlined, trusted,
                   paths, solver, samples, wall, unsupported, bounded, note=None):
    import z3
    known_obs = {n for n, _ in known_hits}
    viol_obs = {n for n, _ in violations}
    # bounded stand-ins are never counted as proved obligations
    counted = {n: o for n, o in obs.items() if n not in known_obs and "/bounded:" not in n}
    n_ob = len(counted)
    n_dis = sum(1 for o in counted.values() if not o["n_failed"] and not o["n_undecided"])
    level = plan.get("level", "proof")
    downgraded = bool(und_notes) or n_dis != n_ob or note
    ev_level = level if not downgraded else "other"
    vcs = sum(o["vcs"] for o in obs.values())
    expl = plan.get("explanation", "")
    if downgraded:
        expl = ("DOWNGRADED RUN: not every obligation was discharged on this tree (see undecided / failed); "
                "this run is not a proof. " + expl)
    if note:
        expl = note + ". " + expl
    tb = sorted(ASSUMPTION_TEXT.get(t, t) for t in trusted) + plan.get("trusted_extra", [])
    cov = {
        "obligations": n_ob,
        "discharged": n_dis,
        "checker_cmd": f"python3-vt pyvc/check.py --property {pid} --tier {tier}",
        "trusted_base": tb,
        "explanation": expl or "contract-based deductive verification: VCs generated from the real function ASTs, "
                               "discharged by z3",
        "path_vcs": vcs,
        "paths": paths,
        "vcs_by_backend": dict({"z3-" + z3.get_version_string(): solver["queries"]},
                               **({"cvc5-1.0.3 (re-check of VCs refuted by z3)": solver["cvc5_unsat"]} if solver.get("cvc5_checked") else {})),
        "second_backend": {k: (round(v, 2) if isinstance(v, float) else v) for k, v in solver.items() if k.startswith("cvc5_")},
        "solver_time_s": round(solver["time"], 2),
        "max_vc_time_s": round(solver["max"], 3),
        "solver_unknown": solver["unknown"],
        "functions_under_contract": {q: functions.get(q) or functions.get(real_name(q, functions)) for q in sorted(contracts)},
        "functions_inlined": sorted(inlined),
        "function_ast_sha256": functions,
        "failed_obligations": sorted(viol_obs),
        "known_finding_obligations": sorted(known_obs),
        "undecided": und_notes,
        "bounded": bounded,
        "samples": samples or [{"obligation": n} for n in list(obs)[:3]],
        "exhaustive": False,
        "instances": len({n.rsplit("/", 1)[0] for n in obs}),
    }
    cov.update(plan.get("coverage_extra", {}))
    ev = {
        "property_id": pid, "tier": tier, "seed": seed, "level": ev_level, "coverage": cov,
        "assumptions": tb + plan.get("assumptions", []),
        "wall_s": round(wall, 2), "violations": len(viol_obs),
        "repo_head": subprocess.run(["git", "-C", REPO, "rev-parse", "--short", "HEAD"], capture_output=True,
                                    text=True).stdout.strip(),
    }
    evdir = os.environ.get("PYVC_EVIDENCE_DIR", os.path.join(ROOT, "evidence"))
    os.makedirs(evdir, exist_ok=True)
    with open(os.path.join(evdir, pid + ".json"), "w") as f:
        json.dump(ev, f, indent=1, default=str)


def real_name(q, functions):
    return q
