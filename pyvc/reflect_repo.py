"""Runs under /venv/bin/python (the interpreter the test-suite uses) with PYTHONPATH=<repo>.

Imports the REAL package (with stub bson / numcodecs modules so the Mongo/Zarr back ends import)
and prints, as JSON, the class-level facts that class-creation-time code computed:
MROs, registry, validators, protected keys, lock/buffer object ownership, abstract-type facts.
pyvc cross-checks its own AST-derived class table against this; a mismatch is a checker error.
"""
import json
import os
import sys
import types

here = os.path.dirname(os.path.abspath(__file__))
sys.path.insert(0, os.path.join(os.path.dirname(here), "replay", "fakes"))

import collections.abc as cabc  # noqa: E402

import synced_collections  # noqa: E402,F401
from synced_collections.backends import collection_json as cj  # noqa: E402
from synced_collections.backends import collection_redis as cr  # noqa: E402
from synced_collections.backends import collection_mongodb as cm  # noqa: E402
from synced_collections.backends import collection_zarr as cz  # noqa: E402
from synced_collections.data_types.synced_collection import SyncedCollection  # noqa: E402
from synced_collections.data_types.attr_dict import AttrDict  # noqa: E402
from synced_collections.buffers.buffered_collection import BufferedCollection  # noqa: E402
from synced_collections.buffers.file_buffered_collection import FileBufferedCollection  # noqa: E402
from synced_collections.buffers.serialized_file_buffered_collection import (  # noqa: E402
    SerializedFileBufferedCollection,
)
from synced_collections.buffers.memory_buffered_collection import (  # noqa: E402
    SharedMemoryFileBufferedCollection,
)
from synced_collections import numpy_utils  # noqa: E402


def qn(f):
    return getattr(f, "__qualname__", repr(f))


out = {"classes": {}, "registry": {}, "numpy": bool(numpy_utils.NUMPY)}
concrete = []
for backend, classes in SyncedCollection.registry.items():
    out["registry"][backend] = [c.__name__ for c in classes]
    concrete.extend(classes)

ABCS = {
    "Mapping": cabc.Mapping,
    "MutableMapping": cabc.MutableMapping,
    "Sequence": cabc.Sequence,
    "MutableSequence": cabc.MutableSequence,
    "Collection": cabc.Collection,
    "SyncedCollection": SyncedCollection,
    "AttrDict": AttrDict,
    "BufferedCollection": BufferedCollection,
    "FileBufferedCollection": FileBufferedCollection,
    "SerializedFileBufferedCollection": SerializedFileBufferedCollection,
    "SharedMemoryFileBufferedCollection": SharedMemoryFileBufferedCollection,
    "str": str,
}


def resolve(cls, name):
    """Qualified name of the function the MRO selects for `name` (or a marker)."""
    for k in cls.__mro__:
        if name in k.__dict__:
            v = k.__dict__[name]
            if isinstance(v, (classmethod, staticmethod)):
                return k.__name__ + "." + name, type(v).__name__
            if isinstance(v, property):
                return k.__name__ + "." + name, "property"
            if isinstance(v, types.FunctionType):
                return k.__name__ + "." + name, "function"
            return k.__name__ + "." + name, type(v).__name__
    return None, None


METHODS = (
    "__init__ __getitem__ __setitem__ __delitem__ __iter__ __len__ __call__ __eq__ __ne__ __repr__ __str__ "
    "__contains__ __reversed__ __iadd__ __lt__ __le__ __gt__ __ge__ __getattr__ __setattr__ __delattr__ "
    "keys values items get pop popitem clear update setdefault reset insert append extend remove reverse index count "
    "_load _save _update _to_base _from_base _validate _load_from_resource _save_to_resource is_base_type "
    "_flush _flush_buffer _load_from_buffer _save_to_buffer _initialize_data_in_buffer _is_buffered _buffer_lock "
    "_thread_lock _lock_id _get_file_metadata buffer_backend backend_is_buffered get_buffer_capacity "
    "set_buffer_capacity get_current_buffer_size filename _hash _encode _decode"
).split()

for c in concrete:
    d = {
        "mro": [k.__name__ for k in c.__mro__],
        "backend": c._backend,
        "all_validators": [qn(v) for v in c._all_validators],
        "supports_threading": bool(c._supports_threading),
        "threading_active": bool(c._threading_support_is_active),
        "loadsave": c._LoadSaveType.__name__,
        "protected_keys": sorted(getattr(c, "_PROTECTED_KEYS", ())) if issubclass(c, AttrDict) else None,
        "isa": {n: issubclass(c, k) for n, k in ABCS.items()},
        "kind": "dict" if issubclass(c, cabc.Mapping) else "list",
        "buffer_capacity": getattr(c, "_BUFFER_CAPACITY", None),
        "own": {
            n: (id(getattr(c, n)) if hasattr(c, n) else None)
            for n in ("_locks", "_cls_lock", "_buffer", "_buffered_collections", "_buffer_context", "_BUFFER_LOCK")
        },
        "static_types": {
            n: (type(getattr(c, n)).__name__ if hasattr(c, n) else None)
            for n in ("_locks", "_cls_lock", "_BUFFER_LOCK", "_buffer", "_buffered_collections")
        },
        "thread_lock_kind": type(c.__dict__.get("_thread_lock", None)).__name__
        if "_thread_lock" in c.__dict__
        else type(getattr(c, "_thread_lock", None)).__name__,
        "resolve": {m: resolve(c, m) for m in METHODS},
    }
    # where does the _thread_lock getter come from?
    tl = None
    for k in c.__mro__:
        if "_thread_lock" in k.__dict__:
            tl = k.__dict__["_thread_lock"]
            break
    if isinstance(tl, property):
        co = tl.fget.__code__
        d["thread_lock_getter"] = [os.path.relpath(co.co_filename, os.path.dirname(synced_collections.__file__)), co.co_firstlineno]
    else:
        d["thread_lock_getter"] = None
    bc = getattr(c, "_buffer_context", None)
    d["buffer_context_type"] = type(bc).__name__ if bc is not None else None
    out["classes"][c.__name__] = d

# distinct-ownership facts: which classes share a statics object
for n in ("_locks", "_cls_lock", "_buffer", "_buffered_collections", "_buffer_context", "_BUFFER_LOCK"):
    seen = {}
    for cname, d in out["classes"].items():
        i = d["own"][n]
        if i is not None:
            seen.setdefault(i, []).append(cname)
    out.setdefault("shared_statics", {})[n] = [v for v in seen.values() if len(v) > 1]

# resolver configuration (identifier order, blocklists), read from the real objects
from synced_collections import validators as V  # noqa: E402
from synced_collections.data_types import synced_collection as SC, synced_dict as SD, synced_list as SL  # noqa: E402

res = {}
for mod, names in (
    (SC, ["_sc_resolver", "_collection_resolver"]),
    (SD, ["_mapping_resolver"]),
    (SL, ["_sequence_resolver"]),
    (V, ["_no_dot_in_key_type_resolver", "_json_format_validator_type_resolver"]),
    (cj, ["_json_attr_dict_validator_type_resolver"]),
):
    for n in names:
        r = getattr(mod, n)
        res[n] = {
            "tags": list(r.abstract_type_identifiers),
            "blocklist": [t.__name__ for t in (r.cache_blocklist or ())],
        }
out["resolvers"] = res
out["stdlib_abc_file"] = sys.modules["_collections_abc"].__file__
json.dump(out, sys.stdout)
