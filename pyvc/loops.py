"""Loop rule with sidecar invariants (DESIGN.md 2.4).

A `for x in it` loop over a symbolic iterable is replaced by
   * initiation:   the invariant holds with no element visited               (obligation)
   * preservation: from an ARBITRARY state satisfying the invariant, with an arbitrary set of visited elements,
                   one arbitrary not-yet-visited element is processed; the invariant must hold again with that
                   element added                                               (obligation)
   * exit:         the invariant with ALL elements visited is assumed after the loop.
No unrolling, no bound.  Invariants are pointwise: they talk about Skolem elements fixed before the loop
(`prepare`), so all VCs are quantifier-free.  `break` / `return` / `raise` inside the body leave the loop with
the state of that iteration.
"""
import ast

import z3

from . import smt
from .smt import Val, VInt, IntS, BoolS, F
from .values import Z, Bv, Iv, Const, ObjV, TupleV, Raise, Unsupported, to_val, as_int
from . import builtins_spec as bs
from .contracts import havoc_value

item_key = F("item_key", Val, IntS, Val)        # i-th key of a mapping (an arbitrary fixed enumeration)
item_val = F("item_val", Val, IntS, Val)
key_index = F("key_index", Val, Val, IntS)      # position of a key in that enumeration
plain_len = bs.list_len                         # ONE vocabulary for every list-like value


def seq_at(t, i):
    """i-th element of a list-like value."""
    return bs.list_get(t, VInt(i))


class Seq:
    def __init__(self, kind, term, n, elem, facts=None, source=None):
        self.kind = kind            # 'items' | 'keys' | 'seq' | 'range'
        self.term = term            # the container value the elements come from (Val) or None
        self.n = n                  # z3 Int
        self.elem = elem            # fn(i: z3 Int) -> V
        self.facts = facts or (lambda i: [])
        self.source = source or {}


def mapping_facts(m, i):
    """Facts tying the i-th enumerated pair of mapping m to the operation symbols [SPEC-BUILTIN]."""
    k = item_key(m, i)
    return [bs.dict_has(m, k), bs.dict_get(m, k) == item_val(m, i), key_index(m, k) == i]


def mapping_key_facts(m, k):
    """A key that is in m is one of the enumerated keys."""
    j = key_index(m, k)
    return [z3.Implies(bs.dict_has(m, k), z3.And(j >= 0, j < bs.dict_len(m), item_key(m, j) == k,
                                                 item_val(m, j) == bs.dict_get(m, k)))]


def describe(intr, st, it):
    """-> Seq for the iterable value `it`, or None."""
    if isinstance(it, Z):
        view = it.meta.get("view")
        if view in ("items", "keys", "values") and "of" in it.meta:
            m = it.meta["of"].term
            n = bs.dict_len(m)
            plain = it.meta["of"].meta.get("plain", False)

            def mk(t):
                return Z(t, None, {"plain": True} if plain else {})
            def pfacts(i):
                fs = mapping_facts(m, i)
                if plain:     # the items of a plain value are plain values
                    fs = fs + [z3.Not(smt.is_VRef(item_key(m, i))), z3.Not(smt.is_VRef(item_val(m, i)))]
                return fs
            if view == "items":
                return Seq("items", m, n, lambda i: TupleV([mk(item_key(m, i)), mk(item_val(m, i))]),
                           pfacts, {"mapping": it.meta["of"]})
            if view == "keys":
                return Seq("keys", m, n, lambda i: mk(item_key(m, i)), lambda i: mapping_facts(m, i),
                           {"mapping": it.meta["of"]})
            return Seq("values", m, n, lambda i: mk(item_val(m, i)), lambda i: mapping_facts(m, i),
                       {"mapping": it.meta["of"]})
        op = it.meta.get("op")
        if op in ("items", "keys", "values", "iter") and it.meta.get("item_of") is not None \
                and it.meta.get("cellkind") == "dict":
            c = it.meta["cell_content"]
            n = bs.dict_len(c)
            own = it.meta["item_of"]
            ref = it.meta.get("cell_ref")

            def mkc(t, k):
                return Z(t, None, {"item_of": own, "key": k, "cellkind": "dict", "cell_ref": ref, "cell_content": c})

            def cfacts(i):
                v = item_val(c, i)
                return mapping_facts(c, i) + [z3.Implies(smt.is_VRef(v), z3.And(smt.isinstance_(v, "SyncedCollection"),
                                                                                Val.addr(v) > 1000))]
            if op == "items":
                return Seq("items", c, n, lambda i: TupleV([Z(item_key(c, i), None, {"plain": True}),
                                                            mkc(item_val(c, i), item_key(c, i))]),
                           cfacts, {"cell_owner": own})
            if op in ("keys", "iter"):
                return Seq("keys", c, n, lambda i: Z(item_key(c, i), None, {"plain": True}),
                           lambda i: mapping_facts(c, i), {"cell_owner": own})
        if op == "iter" and it.meta.get("cellkind") == "list":
            c = it.meta["cell_content"]
            own = it.meta["item_of"]
            ref = it.meta.get("cell_ref")

            def lfacts(i):
                v = bs.list_get(c, VInt(i))
                return [bs.list_idx_ok(c, VInt(i)),
                        z3.Implies(smt.is_VRef(v), z3.And(smt.isinstance_(v, "SyncedCollection"), Val.addr(v) > 1000))]
            return Seq("seq", c, bs.list_len(c),
                       lambda i: Z(bs.list_get(c, VInt(i)), None, {"item_of": own, "key": VInt(i), "cellkind": "list",
                                                                   "cell_ref": ref, "cell_content": c}),
                       lfacts, {"cell_owner": own})
        if it.meta.get("filter") is not None:
            flt = it.meta["filter"]
            t = it.term
            return Seq("filter", t, plain_len(t), lambda i: Z(seq_at(t, i), None, {"plain": True}),
                       lambda i: flt["elem_facts"](seq_at(t, i)) + [F("filter_index", Val, Val, IntS)(t, seq_at(t, i)) == i],
                       {"filter": flt})
        if it.meta.get("range") is not None:
            n = it.meta["range"]
            return Seq("range", None, n, lambda i: Iv(i))
        if it.hint in ("dict", "list"):
            return None
        # a plain sequence / iterable argument
        t = it.term
        n = plain_len(t)
        plain = it.meta.get("plain", False)
        return Seq("seq", t, n, lambda i: Z(seq_at(t, i), None, {"plain": True} if plain else {}), None, {"value": it})
    return None


def param_name(fi, k):
    """Name of the k-th positional parameter of function fi (invariants refer to parameters by position, so a
    renamed parameter does not break them)."""
    a = fi.node.args
    names = [x.arg for x in list(a.posonlyargs) + list(a.args)]
    return names[k]


def returned_name(fi):
    """The local variable the function returns (`return <name>`), if it returns exactly one."""
    names = {n.value.id for n in ast.walk(fi.node) if isinstance(n, ast.Return) and isinstance(n.value, ast.Name)}
    if len(names) != 1:
        raise Unsupported("cannot identify the returned local of " + fi.qualname)
    return names.pop()


def name_in(fi, pred):
    """The unique local Name selected by `pred(node)` over the statements of fi (role-based naming of locals)."""
    names = set()
    for n in ast.walk(fi.node):
        r = pred(n)
        if r:
            names.add(r)
    if len(names) != 1:
        raise Unsupported("cannot identify a local by its role in " + fi.qualname)
    return names.pop()


class LoopCtx:
    def __init__(self, eng, fi, ordinal, seq, node):
        self.eng = eng
        self.fi = fi
        self.ordinal = ordinal
        self.seq = seq
        self.node = node
        self.sk = {}
        self.entry = None      # state at loop entry (before havoc)


class LoopSpec:
    """Sidecar invariant of one loop, keyed by (function qualname, loop ordinal)."""
    def prepare(self, L, st):
        pass

    def havoc(self, L, st):
        pass

    def invariant(self, L, st, vis):
        return []

    def invariant_instances(self, L, st, vis, i):
        return []

    def iteration_facts(self, L, st, i):
        """Axiom instances at the current element (trusted unfolding of spec predicates)."""
        return []

    def at_exit(self, L, st):
        """Extra facts assumed at exit (ghost bookkeeping)."""
        return []


def assigned_names(body, target):
    names = set()
    for n in ast.walk(ast.Module(body=list(body), type_ignores=[])):
        if isinstance(n, ast.Name) and isinstance(n.ctx, ast.Store):
            names.add(n.id)
    for n in ast.walk(target):
        if isinstance(n, ast.Name):
            names.add(n.id)
    return names


def loop_ordinal(fi, node):
    k = 0
    for n in ast.walk(fi.node):
        if isinstance(n, (ast.For, ast.While)):
            k += 1
            if n is node:
                return k
    raise Unsupported("loop not found in its function")


def install(intr_cls):
    """Adds the symbolic loop rule to an Intrinsics class."""

    def symbolic_for_ext(self, eng, s, st, it):
        if isinstance(it, ObjV):
            # iterating an object: its __iter__ first; the loop rule is applied once per normal outcome
            outs = []
            for (x, r) in eng.call_method(st, it, "__iter__", [], {}):
                if isinstance(r, Raise):
                    outs.append((x, ("raise", r.exc)))
                else:
                    outs.extend(symbolic_for_ext(self, eng, s, x, r))
            return outs
        fi = st.frames[-1]
        if isinstance(it, Z) and it.hint in ("dict", "list"):
            # iterating a container cell: the implicit iter() is a read of the cell
            rs = self.cell_op(st, it, it.hint, "iter", [])
            st, it = rs[-1]
        seq = describe(self, st, it)
        if seq is None:
            raise Unsupported("for loop over " + repr(it))
        ordinal = loop_ordinal(fi, s)
        spec = eng.loop_specs.get((fi.qualname, ordinal))
        if spec is None:
            raise Unsupported(f"loop {ordinal} of {fi.qualname} has no invariant")
        L = LoopCtx(eng, fi, ordinal, seq, s)
        st.assume(seq.n >= 0)
        spec.prepare(L, st)
        L.entry = st.copy()
        name = f"{fi.qualname}/loop{ordinal}"
        # --- initiation
        L.pos_now = z3.IntVal(0)       # ordered loops: number of elements visited in the state the invariant is asked for
        for (label, cl) in spec.invariant(L, st, lambda j: z3.BoolVal(False)):
            eng.loop_goal(f"{name}/initiation:{label}", st, cl)
        # --- arbitrary iteration
        outs = []
        h = st.copy()
        for nme in assigned_names(s.body, s.target):
            if nme in h.loc and not nme.startswith("$"):
                try:
                    h.loc[nme] = havoc_value(h.loc[nme], nme + "~")
                except Unsupported:
                    pass
        spec.havoc(L, h)
        ordered = getattr(spec, "ordered", False)
        if ordered:
            # sequences are traversed in index order: the visited set is the prefix [0, p)
            pos = smt.fresh("position", IntS)
            h.assume(pos >= 0, pos <= seq.n)
            L.sk["$pos"] = pos
            vis = lambda j: z3.And(j >= 0, j < pos)
        else:
            visF = smt.fresh("visited", z3.ArraySort(IntS, BoolS))
            vis = lambda j: z3.Select(visF, j)
        L.pos_now = pos if ordered else None
        for (label, cl) in spec.invariant(L, h, vis):
            h.assume(cl)
        exit_state = h.copy()
        i = smt.fresh("iter", IntS)
        h.assume(i >= 0, i < seq.n, z3.Not(vis(i)))
        if ordered:
            h.assume(i == pos)
        for f in seq.facts(i):
            h.assume(f)
        for f in spec.iteration_facts(L, h, i):
            h.assume(f)
        # the invariant is parametric in its Skolem element: it may be assumed at further instances
        # (e.g. at the element of the current iteration)
        for cl in spec.invariant_instances(L, h, vis, i):
            h.assume(cl)
        h.trace.append((("loop-iteration", name), True))
        vis2 = (lambda j: z3.And(j >= 0, j < pos + 1)) if ordered else (lambda j: z3.Or(z3.Select(visF, j), j == i))
        L.sk["$pos_next"] = (pos + 1) if ordered else None
        L.pos_now = (pos + 1) if ordered else None
        L.sk["$iter"] = i
        if eng.feasible(h):
            for (x, o) in eng.assign(s.target, seq.elem(i), h):
                if o is not None:
                    outs.append((x, o))
                    continue
                for (y, o2) in eng.run_block(s.body, x):
                    if o2 is None or o2[0] == "continue":
                        for (label, cl) in spec.invariant(L, y, vis2):
                            eng.loop_goal(f"{name}/preservation:{label}", y, cl)
                        # per-path (protocol) obligations of the function under verification also hold on the paths
                        # that end here
                        for hk in getattr(eng, "iteration_hooks", ()):
                            hk(y)
                        # the path is closed by the invariant: nothing continues from here
                    elif o2[0] == "break":
                        outs.append((y, None))
                    else:
                        outs.append((y, o2))
        # --- exit: every element visited
        e = exit_state
        allv = smt.fresh("visited_all", z3.ArraySort(IntS, BoolS))
        e.pc = [p for p in e.pc]      # (copy)
        # re-state the invariant for the all-visited set: the havocked state satisfies it for visF; at exit
        # visF is the full set
        if ordered:
            e.assume(pos == seq.n)
        else:
            e.assume(*[z3.Implies(z3.And(j >= 0, j < seq.n), z3.Select(visF, j)) for j in exit_indices(L)])
        for f in spec.at_exit(L, e):
            e.assume(f)
        e.trace.append((("loop-exit", name), True))
        if eng.feasible(e):
            if s.orelse:
                outs.extend(eng.run_block(s.orelse, e))
            else:
                outs.append((e, None))
        return outs

    def guarded(fn):
        """A sidecar invariant that does not FIT the loop it is keyed to (the function's loops were restructured: a
        Skolem constant of another loop is missing, a role-named local is gone ...) is not a verdict and not a crash: the
        instance leaves the executed subset (-> bounded stand-in)."""
        def run(self, eng, s, st, *a):
            try:
                return fn(self, eng, s, st, *a)
            except (KeyError, AttributeError, IndexError, TypeError) as e:
                fi = st.frames[-1] if st.frames else None
                raise Unsupported(f"the sidecar invariant does not fit a loop of {getattr(fi, 'qualname', '?')} "
                                  f"({type(e).__name__}: {e})")
        return run

    intr_cls.symbolic_for_ext = guarded(symbolic_for_ext)

    def symbolic_while_ext(self, eng, s, st):
        """`while <test>: body` with a sidecar invariant (partial correctness; termination is NOT verified):
             initiation    Inv holds on entry                                              (obligation)
             preservation  from an ARBITRARY state satisfying Inv (and the test), one run of the body that ends
                           normally or with `continue` re-establishes Inv                  (obligation)
             exit          paths that leave through `break` / a false test continue after the loop with the state
                           of that iteration (which satisfies Inv at its start); return / raise leave the function."""
        fi = st.frames[-1]
        ordinal = loop_ordinal(fi, s)
        spec = eng.loop_specs.get((fi.qualname, ordinal))
        if spec is None:
            raise Unsupported(f"loop {ordinal} of {fi.qualname} has no invariant")
        if s.orelse:
            raise Unsupported("while ... else")
        L = LoopCtx(eng, fi, ordinal, None, s)
        spec.prepare(L, st)
        L.entry = st.copy()
        name = f"{fi.qualname}/loop{ordinal}"
        for (label, cl) in spec.invariant(L, st, None):
            eng.loop_goal(f"{name}/initiation:{label}", st, cl)
        h = st.copy()
        for nme in assigned_names(s.body, ast.Tuple(elts=[], ctx=ast.Store())):
            if nme in h.loc and not nme.startswith("$"):
                try:
                    h.loc[nme] = havoc_value(h.loc[nme], nme + "~")
                except Unsupported:
                    pass
        spec.havoc(L, h)
        for (label, cl) in spec.invariant(L, h, None):
            h.assume(cl)
        for f in spec.iteration_facts(L, h, None):
            h.assume(f)
        h.trace.append((("loop-iteration", name), True))
        outs = []
        if not eng.feasible(h):
            return outs
        for (x0, tv) in eng.ev(s.test, h):
            if isinstance(tv, Raise):
                outs.append((x0, ("raise", tv.exc)))
                continue
            for (x1, t) in eng.truthy(x0, tv):
                for (x, side) in eng.fork(x1, t, ("while", s.lineno)):
                    if not side:
                        for f in spec.at_exit(L, x):
                            x.assume(f)
                        outs.append((x, None))
                        continue
                    for (y, o2) in eng.run_block(s.body, x):
                        if o2 is None or o2[0] == "continue":
                            for (label, cl) in spec.invariant(L, y, None):
                                eng.loop_goal(f"{name}/preservation:{label}", y, cl)
                        elif o2[0] == "break":
                            for f in spec.at_exit(L, y):
                                y.assume(f)
                            y.trace.append((("loop-exit", name), True))
                            outs.append((y, None))
                        else:
                            outs.append((y, o2))
        return outs

    intr_cls.symbolic_while_ext = guarded(symbolic_while_ext)


def exit_indices(L):
    """The Skolem indices the invariant is instantiated at; at loop exit each of them has been visited
    (provided it is a valid index, which the invariant clauses guard themselves)."""
    return [v for k, v in L.sk.items() if k.startswith("idx") and z3.is_expr(v)]
