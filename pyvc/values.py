"""Symbolic values and the symbolic state of pyvc (DESIGN.md 3)."""
import z3

from . import smt
from .smt import Val, VNone, VBool, VInt, VStr, VRef


class V:
    hint = None


class Z(V):
    """A z3 term of sort Val.  hint: 'dict' / 'list' (reference to a mutable built-in container cell),
    'node' (reference to a synced node of unknown class), or None."""
    __slots__ = ("term", "hint", "meta")

    def __init__(self, term, hint=None, meta=None):
        self.term = term
        self.hint = hint
        self.meta = meta or {}

    def __repr__(self):
        return f"Z({self.term}{',' + self.hint if self.hint else ''})"


class Bv(V):
    __slots__ = ("term",)

    def __init__(self, term):
        self.term = term if z3.is_expr(term) else z3.BoolVal(bool(term))

    def __repr__(self):
        return f"Bv({self.term})"


class Iv(V):
    __slots__ = ("term",)

    def __init__(self, term):
        self.term = term if z3.is_expr(term) else z3.IntVal(int(term))

    def __repr__(self):
        return f"Iv({self.term})"


class Const(V):
    __slots__ = ("v",)

    def __init__(self, v):
        self.v = v

    def __repr__(self):
        return f"Const({self.v!r})"


class ObjV(V):
    """Reference to a *known* heap object (python-side record in State.objs)."""
    __slots__ = ("addr",)

    def __init__(self, addr):
        self.addr = addr

    def __repr__(self):
        return f"Obj@{self.addr}"


class FuncV(V):
    def __init__(self, fi, closure=None):
        self.fi = fi
        self.closure = closure


class LambdaV(V):
    def __init__(self, node, module, closure=None):
        self.node = node
        self.module = module
        self.closure = closure or {}


class BoundV(V):
    def __init__(self, recv, fi, via_cls=None):
        self.recv = recv
        self.fi = fi
        self.via_cls = via_cls


class ClassV(V):
    def __init__(self, ci):
        self.ci = ci

    def __repr__(self):
        return f"Class({self.ci.name})"


class BuiltinV(V):
    def __init__(self, name, recv=None):
        self.name = name
        self.recv = recv

    def __repr__(self):
        return f"Builtin({self.name})"


class ModuleV(V):
    def __init__(self, name):
        self.name = name


class SuperV(V):
    def __init__(self, after, recv):
        self.after = after
        self.recv = recv


class TupleV(V):
    def __init__(self, items):
        self.items = list(items)

    def __repr__(self):
        return f"Tuple{self.items}"


class PyDictV(V):
    """A dict literal known on the python side (ordered pairs of values), e.g. the identifier table of a resolver."""
    def __init__(self, pairs):
        self.pairs = list(pairs)


class KwV(V):
    """A **kwargs mapping known on the python side."""
    def __init__(self, d):
        self.d = dict(d)


class LockV(V):
    """A threading.RLock; `lid` is a z3 Int identifying it in the ghost Depth array."""
    def __init__(self, lid, name=""):
        self.lid = lid
        self.name = name

    def __repr__(self):
        return f"Lock({self.name})"


class LocksTableV(V):
    """The class-level dict `_locks` of a concrete class: lock_id -> RLock."""
    def __init__(self, cls_name):
        self.cls_name = cls_name


class ExcV(V):
    """An exception instance: class is a z3 Int type id (may be symbolic), python-side attributes."""
    def __init__(self, cls_term, attrs=None, label=""):
        self.cls_term = cls_term if z3.is_expr(cls_term) else z3.IntVal(cls_term)
        self.attrs = attrs or {}
        self.label = label

    def __repr__(self):
        return f"Exc({self.label or self.cls_term})"


class ResolverV(V):
    """An AbstractTypeResolver instance created at module level."""
    def __init__(self, name, tags, blocklist_expr, module):
        self.name = name
        self.tags = tags                  # list of (tag string, LambdaV)
        self.blocklist_expr = blocklist_expr
        self.module = module


class Raise:
    """Marker for an exceptional result of an expression evaluation."""
    __slots__ = ("exc",)

    def __init__(self, exc):
        self.exc = exc


class Unsupported(Exception):
    """The construct / call is outside the verified subset: the obligation is UNDECIDED, never a violation."""


class ObjRec:
    __slots__ = ("cls", "fields", "tag")

    def __init__(self, cls, fields=None, tag=""):
        self.cls = cls
        self.fields = fields or {}
        self.tag = tag

    def copy(self):
        return ObjRec(self.cls, dict(self.fields), self.tag)


class State:
    def __init__(self):
        self.loc = {}
        self.objs = {}          # addr -> ObjRec
        self.statics = {}       # (class name, attr) -> V
        self.g = {}             # ghost / global z3 state variables
        self.pc = []            # path condition + assumptions
        self.events = []
        self.trace = []         # branch decisions (failing-path signature)
        self.next_addr = 100
        self.data_owner = {}    # str(z3 addr term) of a _data cell -> node value (ObjV) owning it
        self.frames = []        # call stack of FuncInfo (diagnostics / recursion guard)
        self.ghost = {}         # python-side ghost registers (snapshots taken by contracts/intrinsics)
        self.evdepth = []       # per event: the lock-depth array at that moment (guarded-by obligations)

    def copy(self):
        s = State.__new__(State)
        s.loc = dict(self.loc)
        s.objs = {a: r.copy() for a, r in self.objs.items()}
        s.statics = dict(self.statics)
        s.g = dict(self.g)
        s.pc = list(self.pc)
        s.events = list(self.events)
        s.trace = list(self.trace)
        s.next_addr = self.next_addr
        s.data_owner = dict(self.data_owner)
        s.frames = list(self.frames)
        s.ghost = dict(self.ghost)
        s.evdepth = list(self.evdepth)
        return s

    def assume(self, *fs):
        for f in fs:
            if f is True or (z3.is_true(f) if z3.is_expr(f) else False):
                continue
            self.pc.append(f)

    def new_obj(self, cls, fields=None, tag=""):
        a = self.next_addr
        self.next_addr += 1
        self.objs[a] = ObjRec(cls, fields or {}, tag)
        return ObjV(a)

    def rec(self, o):
        return self.objs[o.addr]

    def event(self, *e):
        self.events.append(e)
        self.evdepth.append(self.g.get("Depth"))

    # convenience accessors for contracts / obligations -------------------------------------
    def sel(self, gname, idx):
        return z3.Select(self.g[gname], idx)

    def upd(self, gname, idx, val):
        self.g[gname] = z3.Store(self.g[gname], idx, val)


def to_val(v):
    """z3 Val term of a python-side value."""
    if isinstance(v, Z):
        return v.term
    if isinstance(v, Bv):
        return VBool(v.term)
    if isinstance(v, Iv):
        return VInt(v.term)
    if isinstance(v, ObjV):
        return VRef(z3.IntVal(v.addr))
    if isinstance(v, Const):
        c = v.v
        if c is None:
            return VNone
        if isinstance(c, bool):
            return VBool(z3.BoolVal(c))
        if isinstance(c, int):
            return VInt(z3.IntVal(c))
        if isinstance(c, str):
            return VStr(z3.StringVal(c))
        if isinstance(c, (tuple, frozenset)):
            return smt.F("const_" + str(abs(hash(repr(sorted(map(repr, c)))))), Val)()
        raise Unsupported(f"constant {c!r} as value")
    if isinstance(v, TupleV):
        f = smt.OP(f"tuple{len(v.items)}", len(v.items))
        return f(*[to_val(x) for x in v.items])
    if isinstance(v, LockV):
        return smt.F("lockobj", smt.IntS, Val)(v.lid)
    if isinstance(v, ClassV):
        return smt.F("classobj", smt.IntS, Val)(z3.IntVal(smt.tid_of(v.ci.name)))
    if isinstance(v, ExcV):
        return smt.F("excobj", smt.IntS, Val)(v.cls_term)
    raise Unsupported(f"value {v!r} cannot be turned into a Val term")


def as_int(v):
    """z3 Int term of a value known to be an int."""
    if isinstance(v, Iv):
        return v.term
    if isinstance(v, Const) and isinstance(v.v, int) and not isinstance(v.v, bool):
        return z3.IntVal(v.v)
    if isinstance(v, Const) and isinstance(v.v, bool):
        return z3.IntVal(int(v.v))
    if isinstance(v, Z):
        return Val.i(v.term)
    if isinstance(v, Bv):
        return z3.If(v.term, 1, 0)
    raise Unsupported(f"not an int: {v!r}")


def is_concrete_str(v):
    return isinstance(v, Const) and isinstance(v.v, str)
