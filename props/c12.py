"""C12 pieces that are not shared with C11 / C16: the JSON encoder hook utils.default (and the encoder class method)
hand out exactly the node's own container for a synced node and refuse everything else - which is what makes
json.dumps(node, cls=SyncedCollectionJSONEncoder) the text of the node's plain view ([E-JSON] proviso)."""
import z3

from pyvc import smt
from pyvc.values import Z, Const, ObjV, Raise, Unsupported, to_val
from pyvc import scene as scn
from props import api


def run_task(eng, prover, task, out):
    P = eng.P
    cname = task["cname"]
    fi = P.functions["default"]
    enc = P.classes["SyncedCollectionJSONEncoder"].methods["default"]
    for role, rk in (("root", None), ("nested", "dict")):
        s = scn.make_scene(eng, cname, role, rk)
        st = s.st
        r_ = role if role == "root" else "nested-in-dict"
        base = f"default@{fi.qualname}/{cname}/{r_}"
        pre = st.copy()
        for (x, res) in eng.run_function(st.copy(), fi, [s.self_]):
            ok = (not isinstance(res, Raise)) and isinstance(res, Z) and res.meta.get("owner") is not None \
                and res.meta["owner"].addr == s.self_.addr
            prover.structural(f"C12/{base}/node:returns-its-own-container", ok, x)
            prover.goal(f"C12/{base}/node:no-effect", x, z3.And(x.g["View"] == pre.g["View"], x.g["Cell"] == pre.g["Cell"],
                                                               x.g["Res"] == pre.g["Res"]))
        t = smt.fresh("not_a_node")
        st2 = st.copy()
        st2.assume(z3.Not(smt.is_VRef(t)))
        for (x, res) in eng.run_function(st2, fi, [Z(t, None, {"plain": True})]):
            ok = isinstance(res, Raise) and z3.is_true(z3.simplify(eng.exc_isinstance(res.exc, ("TypeError",))))
            prover.structural(f"C12/{base}/other-values:TypeError", ok, x)
        encobj = st.new_obj(P.classes["SyncedCollectionJSONEncoder"], {}, tag="encoder")
        for (x, res) in eng.run_function(st.copy(), enc, [encobj, s.self_]):
            ok = (not isinstance(res, Raise)) and isinstance(res, Z) and res.meta.get("owner") is not None \
                and res.meta["owner"].addr == s.self_.addr
            prover.structural(f"C12/SyncedCollectionJSONEncoder.default/{cname}/{r_}/node:returns-its-own-container", ok, x)
    out["functions"][fi.qualname] = fi.sha()
    out["functions"][enc.qualname] = enc.sha()
