"""Buffer tier obligations (C05, C06, C07, C15, C17b, C08 for flushes): the REAL buffer functions are executed
on the concrete statics (pyvc/buffer_spec.py) and each path is checked against the property clauses, stated over
the vocabulary of contracts/buffers.py (entry, changed, contrib, logical content)."""
import z3

from pyvc import smt
from pyvc.smt import Val, VNone, VAbsent, VRef, BoolS, IntS, F, pyeq
from pyvc.values import Z, Bv, Iv, Const, ObjV, ClassV, TupleV, Raise, Unsupported, to_val, as_int
from pyvc import scene as scn
from pyvc import builtins_spec as bs
from pyvc.buffer_spec import K_CONTENTS, K_HASH, K_METADATA, K_MODIFIED
from pyvc.stdlib_spec import json_loads, bytes_decode, md5_hex, encode
from contracts.buffers import Buf
from contracts import core
from props import api


def req_pid(e):
    """Property a callee precondition belongs to (by its label)."""
    lab = str(e[2])
    return "C18" if lab.startswith("Inv.node") else "C06" if lab.startswith("Inv.cover") else "C05" if lab.startswith("forced-") else "C11"


def stat_value(st, fn):
    """What _get_file_metadata() returns in state st."""
    m = st.sel("Meta", fn)
    tup = smt.OP("tuple2", 2)(F("st_size", Val, Val)(m), F("st_mtime_ns", Val, Val)(m))
    return z3.If(st.sel("FS", fn) == VAbsent, VNone, tup)


def is_buffered(st, s):
    rec = st.rec(s.root)
    bobj = as_int(st.rec(rec.fields["buffered"]).fields["_count"])
    bctx = as_int(st.rec(st.statics[(rec.cls.name, "_buffer_context")]).fields["_count"])
    return z3.Or(bobj > 0, bctx > 0)


def others_untouched(eng, pre, post, cname, fn, g0):
    """A Skolem file g0 != fn keeps its entry (pointwise frame of the buffer)."""
    bp, bq = Buf(eng, pre, cname), Buf(eng, post, cname)
    return z3.Implies(g0 != fn, z3.And(bq.has(g0) == bp.has(g0),
                                        z3.Implies(bp.has(g0), z3.And(bs.dict_get(bq.B, g0) == bs.dict_get(bp.B, g0),
                                                                      bq.entry(g0) == bp.entry(g0)))))


def scene_for(eng, cname, second=False):
    s = scn.make_scene(eng, cname, "root", None, second=("same" if second else False))
    st = s.st
    fam = scn.family(eng, s.cls)
    api.type_facts(eng, st, set([s.cls, fam[0], fam[1]]))
    st.assume(s.susp0 == 0)
    fn = buffer_inv(eng, s, st, s.self_)
    return s, st, fn


def buffer_inv(eng, s, st, root):
    """Inv.buffer / Inv.cover / Inv.registry / Inv.size assumed for the file of the (known) root object `root` and
    for an arbitrary other file (Skolem, stored in s.other_file); ghost arrays of the registry members."""
    cname = st.rec(root).cls.name
    fn = to_val(st.rec(root).fields["_filename"])
    b = Buf(eng, st, cname)
    # Inv.buffer at entry, for this file: a present entry is well-formed; the registry / buffer / entry cells are
    # distinct container objects, distinct from the collections' own containers
    st.assume(z3.Implies(b.has(fn), b.wellformed(fn)))
    d = Val.addr(st.rec(root).fields["_data"].term)
    st.assume(b.ba != b.ra, d != b.ba, d != b.ra, z3.Implies(b.has(fn), b.entry_addr(fn) != d))
    st.assume(z3.Implies(b.has(fn), z3.And(b.entry_addr(fn) < st.g["Alloc"])))
    st.ghost["frame_cells"] = [b.entry_addr(fn)]
    st.assume(z3.Implies(b.has(fn), b.content_inv(fn, st.rec(root).cls)))
    st.assume(b.size <= b.cap, b.size >= 0)       # I6: outside an operation the size is within the capacity
    from contracts.buffers import inv_size
    st.assume(inv_size(b))                        # Inv.size: the reported size is the sum of the contributions [L-SUM]
    # ... and the same for an arbitrary OTHER buffered file (Skolem), whose entry is a different object
    g0 = smt.fresh("other_file")
    s.other_file = g0
    st.assume(z3.Implies(b.has(g0), z3.And(b.wellformed(g0), b.entry_addr(g0) != d, b.entry_addr(g0) < st.g["Alloc"])))
    st.assume(z3.Implies(z3.And(b.has(g0), b.has(fn), g0 != fn), b.entry_addr(g0) != b.entry_addr(fn)))
    st.ghost["frame_cells"].append(b.entry_addr(g0))
    # (convention for the uninterpreted value of B[f] when f has no entry: its "address" is a place nothing uses, so
    # that the foreign-container frames instantiated at entry addresses say nothing about real cells in that case)
    st.assume(z3.Implies(z3.Not(b.has(fn)), b.entry_addr(fn) == -7), z3.Implies(z3.Not(b.has(g0)), b.entry_addr(g0) == -7))
    # [E-UUID] the file names of collections are names the program holds: a fresh temp name is none of them
    st.assume(smt.known_name(fn), smt.known_name(g0))
    # registry members of unknown identity: their attributes are ghost functions of the address; Inv.cover at fn, g0
    from contracts.buffers import inv_cover, member_facts
    st.g["NodeFile"] = smt.fresh("NodeFile", z3.ArraySort(IntS, Val))
    st.g["NodeBuf"] = smt.fresh("NodeBuf", z3.ArraySort(IntS, IntS))
    st.g["IoFault"] = smt.fresh("IoFault", z3.ArraySort(Val, BoolS))
    st.assume(z3.Not(z3.Select(st.g["IoFault"], fn)), z3.Not(z3.Select(st.g["IoFault"], g0)))
    covers = {}
    for f in (fn, g0):
        a_c = smt.fresh("cover_obj", IntS)
        covers[f.get_id()] = (f, smt.VInt(a_c), a_c)       # Inv.registry: members are keyed by their id()
    st.ghost["covers"] = covers
    eng.note("[Inv.cover]")
    eng.note("[A-REPOINT]")
    for f in (fn, g0):
        st.assume(inv_cover(eng, st, cname, f))
        a_c = covers[f.get_id()][2]
        st.assume(z3.Implies(bs.dict_has(b.reg, smt.VInt(a_c)), member_facts(eng, st, cname, VRef(a_c))))
    s.covers = covers
    if b.strategy == "shared":
        # I4 (exclusivity): the contents container of ANOTHER file's entry is not this object's container
        cg = b.field(g0, K_CONTENTS)
        st.assume(z3.Implies(z3.And(b.has(g0), g0 != fn), z3.And(Val.addr(cg) != d, smt.is_VRef(cg), Val.addr(cg) > 1000,
                                                                 Val.addr(cg) < st.g["Alloc"], Val.addr(cg) != b.ba,
                                                                 Val.addr(cg) != b.ra)))
        st.ghost["other_tree_containers"] = [(z3.And(b.has(g0), g0 != fn), Val.addr(cg))]
    if b.strategy == "shared":
        # I4 (when it holds): the entry's contents container — not necessarily this object's own
        c = b.field(fn, K_CONTENTS)
        st.assume(z3.Implies(b.has(fn), z3.And(smt.is_VRef(c), Val.addr(c) > 1000, Val.addr(c) < st.g["Alloc"],
                                               Val.addr(c) != b.ba, Val.addr(c) != b.ra, Val.addr(c) != b.entry_addr(fn),
                                               smt.is_VBool(b.field(fn, K_MODIFIED)))))
    return fn


def run_task(eng, prover, task, out):
    what = task["what"]
    cname = task["cname"]
    eng.prover = prover
    if what == "flush":
        check_flush(eng, prover, cname, out)
        check_flush_contract(eng, prover, cname, out)
        check_flush_buffer_def(eng, prover, cname, out)
    elif what == "init":
        check_initialize(eng, prover, cname, out)
    elif what == "save":
        check_save_to_buffer(eng, prover, cname, out)
        check_save_to_buffer(eng, prover, cname, out, via="_save")
    elif what == "load":
        check_load_from_buffer(eng, prover, cname, out)
        check_load_from_buffer(eng, prover, cname, out, via="_load")
    elif what == "contexts":
        check_object_context_exit(eng, prover, cname, out)
        check_backend_context(eng, prover, cname, out)
        check_set_capacity(eng, prover, cname, out)
    for q in list(eng.inlined) + list(eng.used_contracts):
        f = api.find_function(eng, q)
        if f is not None:
            out["functions"].setdefault(f.qualname, f.sha())


def check_flush(eng, prover, cname, out):
    s, st, fn = scene_for(eng, cname)
    fi = eng.P.lookup_method(s.cls, "_flush")
    base = f"{cname}._flush@{fi.qualname}/root"
    eng.goal_prefix = f"C05/{base}"
    force = smt.fresh("force", BoolS)
    g0 = s.other_file
    pre = st.copy()
    bp = Buf(eng, pre, cname)
    flushes = z3.Or(z3.Not(is_buffered(pre, s)), force)
    had = bp.has(fn)
    changed = bp.changed(fn)
    conflict = z3.Not(pyeq(bp.field(fn, K_METADATA), stat_value(pre, fn)))
    L = bp.logical(fn)
    n = z3.IntVal(s.self_.addr)
    outs = eng.run_function(st, fi, [s.self_, Bv(force)])
    k = 0
    for (x, res) in outs:
        k += 1
        ctx = {"path": k}
        bq = Buf(eng, x, cname)
        faulty = any(e[0] == "io-fault" for e in x.events)
        # a resource whose content is not a document this collection can hold (wrong kind / inadmissible data
        # written by an outside writer) is an environment fault, as it is for every load
        faulty = faulty or (any(e[0] == "contract" and e[1] == "_load_from_resource" for e in x.events) and
                            any(e[0] == "contract" and e[1] == "_update" and e[2] in ("wrong-kind", "rejected-entry")
                                for e in x.events))
        normal = not isinstance(res, Raise)
        is_meta = (not normal) and z3.is_true(z3.simplify(eng.exc_isinstance(res.exc, ("MetadataError",))))
        # C15: exact accounting on EVERY exit; other files' entries untouched
        prover.goal(f"C15/{base}/accounting:size-tracks-this-file", x,
                    bq.size - bp.size == bq.contrib(fn) - bp.contrib(fn), info=ctx)
        prover.goal(f"C15/{base}/frame:other-entries-untouched", x, others_untouched(eng, pre, x, cname, fn, g0), info=ctx)
        cover_exit(eng, prover, base, x, cname, fn, g0, ctx)
        size_exit(eng, prover, base, pre, x, cname, fn, g0, ctx)
        # C08 / C17: a flush performs no file primitive of its own (only through _save_to_resource's contract)
        prover.structural(f"C08/{base}/no-own-file-primitive", not any(e[0] == "fs" for e in x.events), x, ctx)
        prover.goal(f"C10/{base}/balance:locks", x, x.g["Depth"] == pre.g["Depth"], info=ctx)
        for e in x.events:
            if e[0] == "requires":
                prover.goal(f"{req_pid(e)}/{base}/callee-requires:{e[2]}", x, e[3], info=ctx)
        saved = any(e[0] == "save" for e in x.events)
        # C05: nothing is written while still buffered (unless forced)
        prover.goal(f"C05/{base}/noop-while-buffered:no-write", x,
                    z3.Implies(z3.Not(flushes), z3.And(x.g["FS"] == pre.g["FS"], x.g["Res"] == pre.g["Res"],
                                                      x.g["Wr"] == pre.g["Wr"])), info=ctx)
        prover.goal(f"C05/{base}/noop-while-buffered:buffer-kept", x,
                    z3.Implies(z3.Not(flushes), z3.And(bq.B == bp.B, bq.size == bp.size,
                                                      z3.Implies(had, bq.entry(fn) == bp.entry(fn)))), info=ctx)
        if normal:
            # C07 / C17: a copy that was only read is never written, and a conflicting modified copy is never
            # flushed silently
            prover.goal(f"C17/{base}/unchanged-copy-not-written", x,
                        z3.Implies(z3.And(flushes, had, z3.Not(changed)),
                                   z3.And(x.sel("FS", fn) == pre.sel("FS", fn), x.sel("Wr", fn) == pre.sel("Wr", fn),
                                          x.sel("Meta", fn) == pre.sel("Meta", fn))), info=ctx)
            prover.goal(f"C07/{base}/conflict-never-returns-normally", x,
                        z3.Not(z3.And(flushes, had, changed, conflict)), info=ctx)
            # C05 / C06: a modified, non-conflicting copy is written — from the SHARED entry, whatever this object holds
            prover.goal(f"C06/{base}/changed-copy-written-from-the-entry", x,
                        z3.Implies(z3.And(flushes, had, changed, z3.Not(conflict)), pyeq(x.sel("Res", fn), L)), info=ctx)
            # C07: after the flush the file's entry is gone (serialized / non-forced) or marked clean (forced, shared)
            if bp.strategy == "serialized":
                prover.goal(f"C07/{base}/entry-removed", x, z3.Implies(flushes, z3.Not(bq.has(fn))), info=ctx)
            else:
                prover.goal(f"C07/{base}/entry-removed-or-clean", x,
                            z3.Implies(z3.And(flushes, had),
                                       z3.If(force, z3.And(bq.has(fn), z3.Not(bq.modified(fn))), z3.Not(bq.has(fn)))), info=ctx)
        elif not faulty:
            # the only non-fault exception of a flush is the conflict report
            prover.goal(f"C07/{base}/raises-only-on-conflict", x,
                        z3.And(eng.exc_isinstance(res.exc, ("MetadataError",)), flushes, had, changed, conflict), info=ctx)
            fnattr = res.exc.attrs.get("filename")
            prover.goal(f"C07/{base}/error-names-the-file", x, (to_val(fnattr) == fn) if fnattr is not None else z3.BoolVal(False),
                        info=ctx)
            prover.goal(f"C07/{base}/outside-content-kept", x,
                        z3.And(x.sel("FS", fn) == pre.sel("FS", fn), x.sel("Res", fn) == pre.sel("Res", fn)), info=ctx)
            if bp.strategy == "serialized":
                prover.goal(f"C07/{base}/entry-removed-on-error", x, z3.Not(bq.has(fn)), info=ctx)
            else:
                prover.goal(f"C07/{base}/entry-removed-or-clean-on-error", x,
                            z3.If(force, z3.And(bq.has(fn), z3.Not(bq.modified(fn))), z3.Not(bq.has(fn))), info=ctx)
    out["paths"] += k
    out["functions"][fi.qualname] = fi.sha()


def check_flush_contract(eng, prover, cname, out):
    """The body of the class's _flush against contracts/buffers.FlushContract (the contract that stands for
    `collection._flush(force)` inside _flush_buffer, where the collection is a registry member)."""
    from props.defs import verify_contract
    s, st, fn = scene_for(eng, cname)
    fi = eng.P.lookup_method(s.cls, "_flush")
    st.ghost["skolem_files"] = [s.other_file]
    force = smt.fresh("force", BoolS)
    n = verify_contract(eng, prover, "C05", f"{cname}._flush@{fi.qualname}/root", fi, eng.flush_contract, st,
                        [s.self_, Bv(force)])
    out["paths"] += n
    out["functions"][fi.qualname] = fi.sha()


def check_flush_buffer_def(eng, prover, cname, out):
    """The body of FileBufferedCollection._flush_buffer (for cls = this class, symbolic force / retain_in_force)
    against contracts/buffers.FlushBufferContract, from a state satisfying Inv.cover / Inv.registry at a Skolem file.
    The collections popped from the registry are objects of unknown identity: their _flush is the FlushContract
    proved against the class's real _flush (check_flush_contract)."""
    from props.defs import verify_contract
    from contracts.buffers import cover_in
    s, st, fn = scene_for(eng, cname)
    fi = eng.P.lookup_method(eng.P.classes["FileBufferedCollection"], "_flush_buffer")
    b = Buf(eng, st, cname)
    f0 = s.other_file
    st.ghost["skolem_files"] = [f0]
    (_, k_c, a_c) = s.covers[f0.get_id()]
    # Inv.cover at f0: a file that has an entry has a registered collection bound to it (here: the ghost witness;
    # the known object of the scene stays out of the registry)
    st.assume(z3.Implies(b.has(f0), z3.And(cover_in(b.reg, k_c, a_c), z3.Select(st.g["NodeFile"], a_c) == f0)))
    force = smt.fresh("force", BoolS)
    retain = smt.fresh("retain_in_force", BoolS)
    if b.strategy == "shared":
        st.assume(z3.Implies(force, retain))      # requires (the only caller passes retain_in_force=True)
    from contracts.buffers import stat_of

    def E(pre):
        bp = Buf(eng, pre, cname)
        return bp.has(f0), bp.changed(f0), z3.Not(pyeq(bp.field(f0, K_METADATA), stat_of(pre, f0)))
    nf = lambda x: z3.Not(z3.Select(x.g["IoFault"], f0))
    reach = [
        ("forced-flush-writes-a-changed-copy", lambda pre, x, r: z3.And(force, E(pre)[0], E(pre)[1], z3.Not(E(pre)[2]), nf(x),
                                                                       z3.BoolVal(not isinstance(r, Raise)))),
        ("conflict-is-reported", lambda pre, x, r: z3.And(force, E(pre)[0], E(pre)[1], E(pre)[2], nf(x),
                                                         z3.BoolVal(isinstance(r, Raise)))),
        ("unforced-flush-leaves-a-buffered-collection", lambda pre, x, r: z3.And(z3.Not(force), E(pre)[0],
                                                                                Buf(eng, x, cname).has(f0), nf(x))),
        ("unchanged-copy", lambda pre, x, r: z3.And(force, E(pre)[0], z3.Not(E(pre)[1]), nf(x))),
        ("unforced-flush-of-an-unbuffered-collection", lambda pre, x, r: z3.And(
            z3.Not(force), E(pre)[0], E(pre)[1], z3.Not(E(pre)[2]), nf(x), z3.Select(pre.g["NodeBuf"], a_c) <= 0,
            as_int(pre.rec(pre.statics[(cname, "_buffer_context")]).fields["_count"]) <= 0,
            z3.BoolVal(not isinstance(r, Raise)))),
    ]
    n = verify_contract(eng, prover, "C05", f"{cname}._flush_buffer@{fi.qualname}", fi,
                        eng.contracts["FileBufferedCollection._flush_buffer"], st, [ClassV(s.cls), Bv(force), Bv(retain)],
                        reach=reach)
    out["paths"] += n
    out["functions"][fi.qualname] = fi.sha()


def cover_exit(eng, prover, base, x, cname, fn, g0, ctx):
    """Inv.cover re-established on exit (not claimed after an injected I/O fault)."""
    from contracts.buffers import inv_cover
    if any(e[0] == "io-fault" for e in x.events):
        return
    for (nm, f) in (("this-file", fn), ("other-file", g0)):
        nofault = z3.Not(z3.Select(x.g["IoFault"], f))       # (a fault recorded at f by a buffer-wide flush)
        prover.goal(f"C06/{base}/Inv.cover:{nm}", x, z3.Implies(nofault, inv_cover(eng, x, cname, f)), info=ctx)


def size_exit(eng, prover, base, pre, x, cname, fn, g0, ctx):
    """Inv.size re-established on exit ([L-SUM] made explicit): from the last state known to satisfy it - the entry
    state, or the state right after the last buffer-wide flush on the path - the function changed the size by the
    contribution delta of ITS file and left every other file's contribution alone.  The (step) lemma is instantiated
    at the witness file, to which the arbitrary Skolem file g0 is bound (late binding)."""
    from contracts.buffers import inv_size, lsum_step, sum_diff
    if any(e[0] == "io-fault" for e in x.events):
        return
    anchor = x.ghost.get("size_anchor", pre)
    ba_, bq = Buf(eng, anchor, cname), Buf(eng, x, cname)
    eng.note("[L-SUM]")
    hyp = [g0 == sum_diff(ba_, bq, fn), lsum_step(ba_, bq, fn)]
    prover.goal(f"C15/{base}/Inv.size-kept", x, z3.Implies(inv_size(ba_), inv_size(bq)), extra=hyp, info=ctx)


def check_buffer_guarded(eng, prover, base, x, cname, ctx):
    """Check-then-act atomicity on the buffer (C06, sufficient condition: two objects on one file must not both
    decide "not buffered yet" and overwrite each other's entry): from its FIRST access to the class's _buffer / an
    entry up to its LAST WRITE to them, the call holds the class's buffer lock without releasing it.  Stated for
    _load_from_buffer / _save_to_buffer, where it holds for both strategies (trailing lock-free reads, the
    shared-memory _flush and the registry are deliberately outside this discipline: DESIGN.md C13)."""
    info = eng.R["classes"][cname]
    if not (eng.mode.get("threads") and info["supports_threading"]):
        return
    WRITES = ("setitem", "delitem", "pop", "popitem", "clear", "update", "setdefault")
    acc = [i for i, e in enumerate(x.events) if e[0] == "buffer-access"]
    wr = [i for i in acc if x.events[i][2] in WRITES]
    if not wr:
        prover.structural(f"C06/{base}/guarded:buffer-state", True, x, ctx)
        return
    acc = [i for i in acc if i <= wr[-1]]
    lid = F("bufferlock", IntS, IntS)(z3.IntVal(smt.tid_of(cname)))
    held = []
    for i in range(acc[0], acc[-1] + 1):
        d = x.evdepth[i]
        if d is not None:
            held.append(z3.Select(d, lid) >= 1)
    prover.goal(f"C06/{base}/guarded:buffer-check-then-write-under-one-hold-of-the-buffer-lock", x, smt.and_(held),
                info=dict(ctx, n_accesses=len(acc)))


def common_exit_checks(eng, prover, base, pre, x, res, s, cname, fn, g0, ctx, forced_possible=True):
    bp, bq = Buf(eng, pre, cname), Buf(eng, x, cname)
    cover_exit(eng, prover, base, x, cname, fn, g0, ctx)
    size_exit(eng, prover, base, pre, x, cname, fn, g0, ctx)
    check_buffer_guarded(eng, prover, base, x, cname, ctx)
    flushed = any(e[0] in ("flush-buffer", "flush-buffer-error") for e in x.events)
    if not flushed:
        prover.goal(f"C15/{base}/accounting:size-tracks-this-file", x,
                    bq.size - bp.size == bq.contrib(fn) - bp.contrib(fn), info=ctx)
        prover.goal(f"C15/{base}/frame:other-entries-untouched", x, others_untouched(eng, pre, x, cname, fn, g0), info=ctx)
        # C05: buffered operations do not touch the file unless the capacity forces a flush
        prover.goal(f"C05/{base}/deferred:no-file-effect", x,
                    z3.And(x.g["FS"] == pre.g["FS"], x.g["Res"] == pre.g["Res"], x.g["Wr"] == pre.g["Wr"]), info=ctx)
    else:
        prover.goal(f"C15/{base}/forced-flush-only-above-capacity", x, z3.BoolVal(True), info=ctx)
    if not isinstance(res, Raise):
        # C15: never above the capacity once the operation has returned
        prover.goal(f"C15/{base}/size-within-capacity-on-return", x, bq.size <= bq.cap, info=ctx)
    prover.structural(f"C08/{base}/no-own-file-primitive", not any(e[0] == "fs" for e in x.events), x, ctx)
    prover.goal(f"C10/{base}/balance:locks", x, x.g["Depth"] == pre.g["Depth"], info=ctx)
    for e in x.events:
        if e[0] == "requires":
            prover.goal(f"{req_pid(e)}/{base}/callee-requires:{e[2]}", x, e[3], info=ctx)
    return flushed


def check_initialize(eng, prover, cname, out):
    s, st, fn = scene_for(eng, cname)
    fi = eng.P.lookup_method(s.cls, "_initialize_data_in_buffer")
    base = f"{cname}._initialize_data_in_buffer@{fi.qualname}/root"
    g0 = s.other_file
    b0 = Buf(eng, st, cname)
    st.assume(z3.Not(b0.has(fn)))        # call-site precondition: only called when the file has no entry
    pre = st.copy()
    bp = Buf(eng, pre, cname)
    n = z3.IntVal(s.self_.addr)
    args = [s.self_]
    k = 0
    for (x, res) in eng.run_function(st, fi, args):
        k += 1
        ctx = {"path": k}
        bq = Buf(eng, x, cname)
        if isinstance(res, Raise):
            continue
        prover.goal(f"C15/{base}/entry:well-formed", x, z3.And(bq.has(fn), bq.wellformed(fn)), info=ctx)
        prover.goal(f"C07/{base}/entry:metadata-is-current-stat", x, bq.field(fn, K_METADATA) == stat_value(pre, fn), info=ctx)
        if bp.strategy == "serialized":
            prover.goal(f"C05/{base}/entry:contents-encode-the-view", x, bq.field(fn, K_CONTENTS) == encode(pre.sel("View", n)), info=ctx)
            prover.goal(f"C17/{base}/entry:starts-unchanged", x, z3.Not(bq.changed(fn)), info=ctx)
        else:
            d = st.rec(s.self_).fields["_data"].term
            prover.goal(f"C05/{base}/entry:contents-is-the-objects-container", x, bq.field(fn, K_CONTENTS) == d, info=ctx)
        prover.goal(f"C15/{base}/accounting:size-tracks-this-file", x,
                    bq.size - bp.size == bq.contrib(fn) - bp.contrib(fn), info=ctx)
        prover.goal(f"C15/{base}/frame:other-entries-untouched", x, others_untouched(eng, pre, x, cname, fn, g0), info=ctx)
        prover.goal(f"C17/{base}/no-file-effect", x, z3.And(x.g["FS"] == pre.g["FS"], x.g["Res"] == pre.g["Res"]), info=ctx)
    out["paths"] += k
    out["functions"][fi.qualname] = fi.sha()


def check_save_to_buffer(eng, prover, cname, out, via="_save_to_buffer"):
    """via="_save": the same clauses for the class's _save entered in BUFFERED mode (the dispatch `if self._is_buffered:
    self._save_to_buffer() else: self._save_to_resource()` is part of what is verified)."""
    s, st, fn = scene_for(eng, cname)
    fi = eng.P.lookup_method(s.cls, via)
    base = f"{cname}.{via}{'[buffered]' if via == '_save' else ''}@{fi.qualname}/root"
    if via == "_save":
        st.assume(is_buffered(st, s))
    g0 = s.other_file
    st.ghost["skolem_files"] = [g0]
    pre = st.copy()
    bp = Buf(eng, pre, cname)
    n = z3.IntVal(s.self_.addr)
    view = pre.sel("View", n)
    k = 0
    for (x, res) in eng.run_function(st, fi, [s.self_]):
        k += 1
        ctx = {"path": k}
        bq = Buf(eng, x, cname)
        flushed = common_exit_checks(eng, prover, base, pre, x, res, s, cname, fn, g0, ctx)
        faulty = any(e[0] == "io-fault" for e in x.events)
        if isinstance(res, Raise):
            if not faulty and not flushed:
                prover.goal(f"C05/{base}/raises-nothing", x, z3.BoolVal(False), info=ctx)
            continue
        if not flushed:
            prover.goal(f"C05/{base}/ensures:buffer-holds-the-view", x, z3.And(bq.has(fn), pyeq(bq.logical(fn), view)), info=ctx)
            prover.goal(f"C15/{base}/entry:well-formed", x, bq.wellformed(fn), info=ctx)
            prover.goal(f"C06/{base}/ensures:registered", x,
                        z3.And(bs.dict_has(bq.reg, smt.VInt(z3.IntVal(s.self_.addr))),
                               bs.dict_get(bq.reg, smt.VInt(z3.IntVal(s.self_.addr))) == VRef(z3.IntVal(s.self_.addr))), info=ctx)
            if bp.strategy == "serialized":
                # a copy that differs from what is on disk is seen as changed by the flush
                prover.goal(f"C05/{base}/ensures:differs-from-disk-implies-changed", x,
                            z3.Implies(z3.And(z3.Not(bp.has(fn)),
                                              bq.field(fn, K_CONTENTS) != encode(z3.If(pre.sel("Res", fn) == VAbsent, VNone, pre.sel("Res", fn)))),
                                       bq.changed(fn)), info=ctx)
            else:
                prover.goal(f"C05/{base}/ensures:marked-modified", x, bq.modified(fn), info=ctx)
    out["paths"] += k
    out["functions"][fi.qualname] = fi.sha()


def check_load_from_buffer(eng, prover, cname, out, via="_load_from_buffer"):
    """via="_load": the same clauses (plus: the object's view is the logical content afterwards) for the class's
    _load entered in BUFFERED mode."""
    s, st, fn = scene_for(eng, cname)
    fi = eng.P.lookup_method(s.cls, via)
    base = f"{cname}.{via}{'[buffered]' if via == '_load' else ''}@{fi.qualname}/root"
    if via == "_load":
        st.assume(is_buffered(st, s))
    g0 = s.other_file
    st.ghost["skolem_files"] = [g0]
    pre = st.copy()
    bp = Buf(eng, pre, cname)
    n = z3.IntVal(s.self_.addr)
    L = bp.logical(fn)
    k = 0
    for (x, res) in eng.run_function(st, fi, [s.self_]):
        k += 1
        ctx = {"path": k}
        bq = Buf(eng, x, cname)
        flushed = common_exit_checks(eng, prover, base, pre, x, res, s, cname, fn, g0, ctx)
        faulty = any(e[0] == "io-fault" for e in x.events) or any(
            e[0] == "contract" and e[1] == "_update" and e[2] in ("wrong-kind", "rejected-entry") for e in x.events)
        if isinstance(res, Raise):
            if not faulty and not flushed:
                prover.goal(f"C05/{base}/raises-nothing", x, z3.BoolVal(False), info=ctx)
            continue
        if flushed:
            continue
        prover.goal(f"C06/{base}/ensures:registered", x,
                    z3.And(bs.dict_has(bq.reg, smt.VInt(z3.IntVal(s.self_.addr))),
                           bs.dict_get(bq.reg, smt.VInt(z3.IntVal(s.self_.addr))) == VRef(z3.IntVal(s.self_.addr))), info=ctx)
        prover.goal(f"C15/{base}/entry:well-formed", x, z3.And(bq.has(fn), bq.wellformed(fn)), info=ctx)
        # the logical content is unchanged by a load (a new entry holds what the file holds)
        prover.goal(f"C05/{base}/ensures:logical-content-kept", x,
                    z3.Implies(L != VAbsent, pyeq(bq.logical(fn), L)), info=ctx)
        if via == "_load":
            prover.goal(f"C05/{base}/ensures:view-is-the-logical-content", x,
                        z3.Implies(L != VAbsent, pyeq(x.sel("View", n), L)), info=ctx)
        if bp.strategy == "serialized":
            if via != "_load":
                prover.goal(f"C05/{base}/ensures:result-is-the-logical-content", x,
                            z3.Implies(L != VAbsent, pyeq(to_val(res), L)), info=ctx)
            prover.goal(f"C17/{base}/new-entry-starts-unchanged", x,
                        z3.Implies(z3.Not(bp.has(fn)), z3.Not(bq.changed(fn))), info=ctx)
        else:
            d1 = x.rec(s.self_).fields["_data"].term
            prover.goal(f"C05/{base}/ensures:object-shares-the-buffered-container", x, d1 == bq.field(fn, K_CONTENTS), info=ctx)
            prover.goal(f"C05/{base}/ensures:view-is-the-logical-content", x,
                        z3.Implies(L != VAbsent, pyeq(x.sel("View", n), L)), info=ctx)
            prover.goal(f"C17/{base}/new-entry-starts-unmodified", x,
                        z3.Implies(z3.Not(bp.has(fn)), z3.Not(bq.modified(fn))), info=ctx)
    out["paths"] += k
    out["functions"][fi.qualname] = fi.sha()


def check_object_context_exit(eng, prover, cname, out):
    """`with obj.buffered:` exit = _CounterFuncContext.__exit__ on the object's context: the flush runs exactly when
    the outermost per-object context exits (and then sees the decremented count); inner exits change nothing."""
    s, st, fn = scene_for(eng, cname)
    ctx_obj = st.rec(s.self_).fields["buffered"]
    fi = eng.P.lookup_method(st.rec(ctx_obj).cls, "__exit__")
    base = f"{cname}.buffered.__exit__@{fi.qualname}/root"
    c0 = as_int(st.rec(ctx_obj).fields["_count"])
    st.assume(c0 >= 1)            # we are inside the context
    pre = st.copy()
    bp = Buf(eng, pre, cname)
    bctx = as_int(st.rec(st.statics[(cname, "_buffer_context")]).fields["_count"])
    had, changed = bp.has(fn), bp.changed(fn)
    conflict = z3.Not(pyeq(bp.field(fn, K_METADATA), stat_value(pre, fn)))
    L = bp.logical(fn)
    outermost = z3.And(c0 == 1, bctx == 0)
    k = 0
    for (x, res) in eng.run_function(st, fi, [ctx_obj, Const(None), Const(None), Const(None)]):
        k += 1
        ctx = {"path": k}
        bq = Buf(eng, x, cname)
        faulty = any(e[0] == "io-fault" for e in x.events)
        prover.goal(f"C05/{base}/count-decremented", x, as_int(x.rec(ctx_obj).fields["_count"]) == c0 - 1, info=ctx)
        cover_exit(eng, prover, base, x, cname, fn, s.other_file, ctx)
        size_exit(eng, prover, base, pre, x, cname, fn, s.other_file, ctx)
        prover.goal(f"C05/{base}/inner-exit-writes-nothing", x,
                    z3.Implies(z3.Not(outermost), z3.And(x.g["FS"] == pre.g["FS"], x.g["Res"] == pre.g["Res"])), info=ctx)
        if not isinstance(res, Raise):
            prover.goal(f"C05/{base}/outermost-exit:file-holds-the-final-content", x,
                        z3.Implies(z3.And(outermost, had, changed, z3.Not(conflict)), pyeq(x.sel("Res", fn), L)), info=ctx)
            prover.goal(f"C07/{base}/outermost-exit:entry-gone", x, z3.Implies(outermost, z3.Not(bq.has(fn))), info=ctx)
            prover.goal(f"C07/{base}/outermost-exit:conflict-is-reported", x,
                        z3.Not(z3.And(outermost, had, changed, conflict)), info=ctx)
        elif not faulty and not any(e[0] == "contract" and e[1] == "_update" and e[2] in ("wrong-kind", "rejected-entry")
                                    for e in x.events):
            prover.goal(f"C07/{base}/raises-only-MetadataError-on-conflict", x,
                        z3.And(eng.exc_isinstance(res.exc, ("MetadataError",)), outermost, had, changed, conflict), info=ctx)
            prover.goal(f"C07/{base}/outermost-exit:entry-gone-after-error", x, z3.Not(bq.has(fn)), info=ctx)
        prover.goal(f"C15/{base}/accounting:size-tracks-this-file", x,
                    bq.size - bp.size == bq.contrib(fn) - bp.contrib(fn), info=ctx)
    out["paths"] += k
    out["functions"][fi.qualname] = fi.sha()


def check_backend_context(eng, prover, cname, out):
    """`with Class.buffer_backend(capacity):` — __call__, __enter__, (body), __exit__ of the class's
    _FileBufferedContext: on EVERY exit the capacity and the context's stack are what they were before, the count
    is restored, and the flush of the registry runs exactly at the outermost exit."""
    s, st, fn = scene_for(eng, cname)
    ctx_obj = st.statics[(cname, "_buffer_context")]
    ci = st.rec(ctx_obj).cls
    P = eng.P
    base = f"{cname}.buffer_backend/context"
    newcap = smt.fresh("requested_capacity")
    st.assume(z3.Or(newcap == VNone, z3.And(smt.is_VInt(newcap), Val.i(newcap) >= 0)))
    b0 = Buf(eng, st, cname)
    cnt0 = as_int(st.rec(ctx_obj).fields["_count"])
    stack_addr = Val.addr(st.rec(ctx_obj).fields["_original_buffer_capacitys"].term)
    st.assume(stack_addr > 1000, stack_addr < st.g["Alloc"], stack_addr != b0.ba, stack_addr != b0.ra)
    st.ghost["frame_cells"] = list(st.ghost.get("frame_cells", [])) + [stack_addr]
    st.ghost["foreign_cells"] = [stack_addr]
    st.ghost["skolem_files"] = [s.other_file]
    pre = st.copy()
    bp = Buf(eng, pre, cname)
    cap0 = bp.cap
    stack0 = pre.sel("Cell", stack_addr)
    k = 0
    call = P.lookup_method(ci, "__call__")
    enter = P.lookup_method(ci, "__enter__")
    exit_ = P.lookup_method(ci, "__exit__")
    capv = Z(newcap, None, {"plain": True})
    for (a, r1) in eng.run_function(st, call, [ctx_obj, capv]):
        if isinstance(r1, Raise):
            prover.goal(f"C15/{base}/__call__-raises-nothing", a, z3.BoolVal(False))
            continue
        for (b, r2) in eng.run_function(a, enter, [ctx_obj]):
            if isinstance(r2, Raise):
                # entering may flush (a smaller capacity): the stack entry was pushed before, which the
                # with-statement does not undo - recorded, not a C15 clause
                continue
            prover.goal(f"C15/{base}/enter:count-incremented", b, as_int(b.rec(ctx_obj).fields["_count"]) == cnt0 + 1)
            prover.goal(f"C15/{base}/enter:capacity-in-effect", b,
                        Buf(eng, b, cname).cap == z3.If(newcap == VNone, cap0, Val.i(newcap)))
            # the body: arbitrary buffered activity; it leaves capacity, context stack and count alone (well-nested)
            mid = b.copy()
            mid.statics[(cname, "_CURRENT_BUFFER_SIZE")] = Iv(smt.fresh("size_in_body", IntS))
            mid.assume(as_int(mid.statics[(cname, "_CURRENT_BUFFER_SIZE")]) >= 0)
            for (c, r3) in eng.run_function(mid, exit_, [ctx_obj, Const(None), Const(None), Const(None)]):
                k += 1
                ctx = {"path": k, "exit": "raise" if isinstance(r3, Raise) else "normal"}
                bq = Buf(eng, c, cname)
                prover.goal(f"C15/{base}/exit:capacity-restored", c, bq.cap == cap0, info=ctx)
                cover_exit(eng, prover, base, c, cname, fn, s.other_file, ctx)
                for e in c.events:
                    if e[0] == "requires":
                        prover.goal(f"{req_pid(e)}/{base}/callee-requires:{e[2]}", c, e[3], info=ctx)
                prover.goal(f"C15/{base}/exit:context-stack-restored", c, c.sel("Cell", stack_addr) == stack0, info=ctx)
                prover.goal(f"C15/{base}/exit:count-restored", c, as_int(c.rec(ctx_obj).fields["_count"]) == cnt0, info=ctx)
                flushed = any(e[0] in ("flush-buffer", "flush-buffer-error") and not z3.is_true(z3.simplify(e[2]))
                              for e in c.events)
                prover.goal(f"C05/{base}/exit:flushes-exactly-at-the-outermost-exit", c,
                            (cnt0 == 0) if flushed else (cnt0 != 0), info=ctx)
    out["paths"] += k
    for f in (call, enter, exit_):
        out["functions"][f.qualname] = f.sha()


def check_set_capacity(eng, prover, cname, out):
    s, st, fn = scene_for(eng, cname)
    from pyvc.values import ClassV
    fi = eng.P.lookup_method(s.cls, "set_buffer_capacity")
    base = f"{cname}.set_buffer_capacity@{fi.qualname}"
    st.ghost["skolem_files"] = [s.other_file]
    new = smt.fresh("new_capacity", IntS)
    st.assume(new >= 0)
    pre = st.copy()
    k = 0
    for (x, res) in eng.run_function(st, fi, [ClassV(s.cls), Iv(new)]):
        k += 1
        bq = Buf(eng, x, cname)
        prover.goal(f"C15/{base}/capacity-set", x, bq.cap == new, info={"path": k})
        if not isinstance(res, Raise):
            prover.goal(f"C15/{base}/size-within-capacity-on-return", x, bq.size <= bq.cap, info={"path": k})
        prover.goal(f"C10/{base}/balance:locks", x, x.g["Depth"] == pre.g["Depth"], info={"path": k})
        cover_exit(eng, prover, base, x, cname, fn, s.other_file, {"path": k})
        size_exit(eng, prover, base, pre, x, cname, fn, s.other_file, {"path": k})
        for e in x.events:
            if e[0] == "requires":
                prover.goal(f"{req_pid(e)}/{base}/callee-requires:{e[2]}", x, e[3], info={"path": k})
    out["paths"] += k
    out["functions"][fi.qualname] = fi.sha()
