"""C18 — nested containers keep the root's family; attribute access equals item access.

(a) class table: for every concrete class the registry entry of its backend holds exactly one dict-kind and one
    list-kind class, both with that backend, the same buffering strategy and the same attribute-access-ness; the
    node a store site creates is of that family (clause C18:family of _from_base, proved per class).
(b) attribute syntax: for the six attribute-access dict classes and EVERY key string that is not a protected name
    or a dunder, __setattr__/__delattr__/__getattr__ (the real AttrDict bodies) satisfy the obligations of
    __setitem__/__delitem__/__getitem__ (KeyError -> AttributeError); for protected names __setattr__ leaves the
    tree and the resource alone.
(c) every attribute the library itself stores on an attribute-access object (in any executed function: the
    constructors, the filename setter, the shared-memory re-pointing of _data, ...) is protected or a dunder.
(d) storing a protected name through item access changes no field of the object."""
import z3

from pyvc import smt
from pyvc.smt import Val, BoolS
from pyvc.values import Z, Const, ObjV, Raise, Unsupported, to_val
from pyvc import scene as scn
from props import api


def run_task(eng, prover, task, out):
    R = eng.R
    what = task["what"]
    if what == "table":
        for cname, info in sorted(R["classes"].items()):
            names = R["registry"].get(info["backend"], [])
            kinds = sorted(R["classes"][n]["kind"] for n in names)
            prover.structural(f"C18/table:{cname}/family-has-one-dict-and-one-list-class", kinds == ["dict", "list"], None,
                              {"registry": names})
            same = all(R["classes"][n]["backend"] == info["backend"] for n in names) and cname in names
            prover.structural(f"C18/table:{cname}/family-shares-the-backend", same, None, {"registry": names})
            strat = lambda n: (R["classes"][n]["isa"]["SerializedFileBufferedCollection"],
                               R["classes"][n]["isa"]["SharedMemoryFileBufferedCollection"])
            prover.structural(f"C18/table:{cname}/family-shares-the-buffering-strategy",
                              all(strat(n) == strat(cname) for n in names), None, {"registry": names})
            dicts = [n for n in names if R["classes"][n]["kind"] == "dict"]
            attr_family = any(R["classes"][n]["isa"]["AttrDict"] for n in dicts)
            mine = R["classes"][cname]["isa"]["AttrDict"] if info["kind"] == "dict" else attr_family
            prover.structural(f"C18/table:{cname}/family-shares-attribute-access",
                              all(R["classes"][n]["isa"]["AttrDict"] == attr_family for n in dicts) and
                              (info["kind"] != "dict" or mine == attr_family) and
                              (("Attr" in cname) == attr_family), None, {"registry": names})
            # the AST-derived backend constant agrees with the real one (extraction cross-check)
            ci = eng.P.classes[cname]
            from pyvc.values import State
            st = State()
            st.frames = []
            try:
                v = eng.class_attr(st, ci, "_backend", None, False)[0][1]
                ok = isinstance(v, Const) and v.v == info["backend"]
            except Exception:     # noqa: BLE001
                ok = False
            prover.structural(f"C18/table:{cname}/backend-constant-matches-source", ok, None, {})
        return
    if what == "protected":
        # (b, protected names) and (d)
        cname = task["cname"]
        for role, rk in (("root", None), ("nested", "dict")):
            s = scn.make_scene(eng, cname, role, rk)
            st = s.st
            st.assume(s.susp0 == 0)
            from pyvc.values import as_int
            if s.buffered:
                for a_, rec_ in st.objs.items():
                    if rec_.tag.startswith("buffered:") or rec_.tag.startswith("bufctx:"):
                        st.assume(as_int(rec_.fields["_count"]) == 0)
            fam = scn.family(eng, s.cls)
            api.type_facts(eng, st, set([s.cls, s.rootcls, fam[0], fam[1]]))
            prot = eng.class_attr(st.copy(), s.cls, "_PROTECTED_KEYS", s.self_, True)[0][1]
            r_ = role if role == "root" else "nested-in-dict"
            k = smt.fresh("arg_key")
            v = smt.fresh("arg_value")
            st.assume(z3.Not(smt.is_VRef(v)), smt.or_([k == to_val(Const(p)) for p in sorted(prot.v)]))
            pre = st.copy()
            n = z3.IntVal(s.self_.addr)
            rn = z3.IntVal(s.root.addr)
            # obj.<protected> = v  addresses the object itself
            fi = eng.P.lookup_method(s.cls, "__setattr__")
            base = f"{cname}.__setattr__@{fi.qualname}/{r_}+protected-name"
            for (x, res) in eng.run_function(st.copy(), fi, [s.self_, Z(k, None, {"plain": True}), Z(v, None, {"plain": True})]):
                prover.goal(f"C18/{base}/tree-and-resource-untouched", x,
                            z3.And(x.g["View"] == pre.g["View"], x.g["Cell"] == pre.g["Cell"], x.g["Res"] == pre.g["Res"]))
                prover.structural(f"C18/{base}/stored-on-the-object-itself",
                                  any(e[0] == "object-setattr-symbolic" for e in x.events) and not isinstance(res, Raise), x)
            # every settable property of the class is reachable through attribute assignment, i.e. protected
            for kcls in s.cls.mro:
                for pname, pr in getattr(kcls, "properties", {}).items():
                    if "set" in pr and role == "root":
                        prover.structural(f"C18/{cname}/settable-property-is-protected:{pname}",
                                          pname in prot.v or pname.startswith("__"), None, {"defined_in": kcls.name})
            # obj[<protected>] = v  never disturbs the object's internals
            fi2 = eng.P.lookup_method(s.cls, "__setitem__")
            base2 = f"{cname}.__setitem__@{fi2.qualname}/{r_}+protected-name"
            for (x, res) in eng.run_function(st.copy(), fi2, [s.self_, Z(k, None, {"plain": True}), Z(v, None, {"plain": True})]):
                same = all(x.rec(s.self_).fields.get(f) is pre.rec(s.self_).fields.get(f) or
                           repr(x.rec(s.self_).fields.get(f)) == repr(pre.rec(s.self_).fields.get(f))
                           for f in pre.rec(s.self_).fields)
                prover.structural(f"C18/{base2}/no-field-of-the-object-changes", same and
                                  set(x.rec(s.self_).fields) == set(pre.rec(s.self_).fields), x)
                prover.structural(f"C18/{base2}/no-attribute-store", not any(e[0] in ("object-setattr-symbolic", "attr-store")
                                                                             and e[1] == s.self_.addr for e in x.events), x)
            out["functions"][fi.qualname] = fi.sha()
        return
