"""Property obligations over the public API (C01, C02a, C03, C04, C10a, C17), generated per
(concrete class, receiver role, public method) from the REAL method body selected by the class's MRO.

The oracle for results / errors / content is the operation table of the built-in dict / list
(pyvc.builtins_spec.DICT_OPS / LIST_OPS) applied to the plain view, i.e. "what the same operation does on a
built-in container" (property statements C01, C03)."""
import z3

from pyvc import smt
from pyvc.smt import Val, VNone, VAbsent, VRef, VInt, pyeq, BoolS, IntS
from pyvc.values import Z, Bv, Iv, Const, ObjV, KwV, Raise, Unsupported, to_val, as_int
from pyvc import builtins_spec as bs
from pyvc import scene as scn
from contracts import core

# --- method tables -----------------------------------------------------------------------------
# name -> dict(params=[...], kind='mutator'|'read')
DICT_API = {
    "__setitem__": dict(params=["key", "value"], kind="mutator"),
    "__delitem__": dict(params=["key"], kind="mutator"),
    "pop": dict(params=["key", "default"], kind="mutator"),
    "popitem": dict(params=[], kind="mutator"),
    "clear": dict(params=[], kind="mutator"),
    "update": dict(params=["other"], kind="mutator", kwargs=True),
    "setdefault": dict(params=["key", "default"], kind="mutator"),
    "reset": dict(params=["data"], kind="mutator"),
    "__getitem__": dict(params=["key"], kind="read"),
    "get": dict(params=["key", "default"], kind="read"),
    "keys": dict(params=[], kind="read"),
    "values": dict(params=[], kind="read"),
    "items": dict(params=[], kind="read"),
    "__iter__": dict(params=[], kind="read"),
    "__len__": dict(params=[], kind="read"),
    "__contains__": dict(params=["key"], kind="read"),
    "__call__": dict(params=[], kind="read"),
    "__eq__": dict(params=["other"], kind="read"),
    "__repr__": dict(params=[], kind="read"),
    "__str__": dict(params=[], kind="read"),
    # attribute syntax of the attribute-access dict classes (C18): same contract as the item operation
    "__setattr__": dict(params=["key", "value"], kind="mutator", alias="__setitem__", attr=True),
    "__delattr__": dict(params=["key"], kind="mutator", alias="__delitem__", attr=True),
    "__getattr__": dict(params=["key"], kind="read", alias="__getitem__", attr=True),
}
LIST_API = {
    "__setitem__": dict(params=["key", "value"], kind="mutator"),
    "__delitem__": dict(params=["key"], kind="mutator"),
    "insert": dict(params=["index", "item"], kind="mutator"),
    "append": dict(params=["item"], kind="mutator"),
    "extend": dict(params=["iterable"], kind="mutator"),
    "__iadd__": dict(params=["iterable"], kind="mutator"),
    "remove": dict(params=["value"], kind="mutator"),
    "pop": dict(params=["index"], kind="mutator"),
    "reverse": dict(params=[], kind="mutator"),
    "clear": dict(params=[], kind="mutator"),
    "reset": dict(params=["data"], kind="mutator"),
    "__getitem__": dict(params=["key"], kind="read"),
    "__iter__": dict(params=[], kind="read"),
    "__len__": dict(params=[], kind="read"),
    "__reversed__": dict(params=[], kind="read"),
    "__contains__": dict(params=["key"], kind="read"),       # inherited: collections.abc.Sequence.__contains__
    "index": dict(params=["value"], kind="read"),            # inherited: Sequence.index, one-argument form
    "count": dict(params=["value"], kind="read"),            # inherited: Sequence.count (generator + sum, [L-GENSUM])
    # Sequence.index(value, start, stop) with arbitrary integer bounds (negative ones re-load for len(self))
    "index3": dict(params=["value", "start", "stop"], kind="read", method="index", ints=["start", "stop"]),
    "index2": dict(params=["value", "start"], kind="read", method="index", ints=["start"]),
    "__call__": dict(params=[], kind="read"),
    "__eq__": dict(params=["other"], kind="read"),
    "__lt__": dict(params=["other"], kind="read"),
    "__le__": dict(params=["other"], kind="read"),
    "__gt__": dict(params=["other"], kind="read"),
    "__ge__": dict(params=["other"], kind="read"),
    "__repr__": dict(params=["other"][:0], kind="read"),
    "__str__": dict(params=[], kind="read"),
}
# inherited mixins with loops / generator expressions are handled by props.mixins (invariants / bounded)
LOOPING_MIXINS = {"list": ["index"]}      # index: only its one-argument form is verified (count, __contains__: proved)


def api_of(kind):
    return DICT_API if kind == "dict" else LIST_API


# --- the oracle: what the built-in operation does ---------------------------------------------------
class Expect:
    """Expected behaviour of `method(args)` on a built-in container holding plain value v."""
    def __init__(self, eng, cls, kind, meth, a):
        self.raises = []      # list of (exception class name, cond)  -- built-in errors
        self.rejects = None   # cond: a documented deviation — the value/key is rejected (TypeError/ValueError)
        self.result = None    # fn(v) -> term | None
        self.new = None       # fn(v) -> Val (exact)  | None
        self.new_eq = None    # fn(v) -> Val: content equal up to Python == (bulk updates, DESIGN C03)
        self.whole = False    # the operation replaces the whole content irrespective of the old one
        P = bs.plain
        al = lambda t: core.allowed(eng, cls, t)
        if kind == "dict":
            T = bs.DICT_OPS
            if meth == "__setitem__":
                self.rejects = z3.Not(al(bs.dict_set(bs.dict_empty, a["key"], a["value"])))
                self.new = lambda v: bs.dict_set(v, a["key"], P(a["value"]))
            elif meth == "__delitem__":
                self._from(T["delitem"], [a["key"]])
            elif meth == "pop":
                self._from(T["pop"], [a["key"], a["default"]])
            elif meth == "popitem":
                self._from(T["popitem"], [])
            elif meth == "clear":
                self._from(T["clear"], [])
                self.whole = True
            elif meth == "setdefault":
                k, d = a["key"], a["default"]
                self.rejects = lambda v: z3.And(z3.Not(bs.dict_has(v, k)),
                                                z3.Not(al(bs.dict_set(bs.dict_empty, k, d))))
                self.result = lambda v: z3.If(bs.dict_has(v, k), bs.dict_get(v, k), P(d))
                self.new = lambda v: z3.If(bs.dict_has(v, k), v, bs.dict_set(v, k, P(d)))
            elif meth == "update":
                o = a["other"]
                od = z3.If(o == VNone, bs.dict_empty, z3.If(core.is_mapping(o), o, bs.dict_from(o)))
                self.new_eq = lambda v: bs.plain(bs.dict_merge(bs.dict_merge(v, od), a["**"]))
                self.rejects = "any"      # per-entry validation inside _update (C11)
                self.raises = [(("TypeError", "ValueError"),
                                z3.And(o != VNone, z3.Not(core.is_mapping(o)), z3.Not(smt.F("dict_from_ok", Val, BoolS)(o))))]
            elif meth == "reset":
                d = a["data"]
                self.raises = [("ValueError", z3.Not(core.is_mapping(d)))]
                self.new_eq = lambda v: bs.plain(d)
                self.rejects = "any"
                self.whole = True
            elif meth == "__getitem__":
                self._from(T["getitem"], [a["key"]])
            elif meth == "get":
                self._from(T["get"], [a["key"], a["default"]])
            elif meth in ("keys", "values", "items"):
                self._from(T[meth], [])
            elif meth == "__iter__":
                self._from(T["iter"], [])
            elif meth == "__len__":
                self._from(T["len"], [])
            elif meth == "__contains__":
                self._from(T["contains"], [a["key"]])
            elif meth == "__call__":
                self.result = lambda v: v
            elif meth == "__eq__":
                self.result = lambda v: pyeq(v, a["other"])
            elif meth == "__repr__":
                self._from(T["repr"], [])
            elif meth == "__str__":
                self._from(T["str"], [])
            else:
                raise KeyError(meth)
        else:
            T = bs.LIST_OPS
            if meth == "__setitem__":
                self.rejects = z3.Not(al(a["value"]))
                self._from(T["setitem"], [a["key"], P(a["value"])])
            elif meth == "__delitem__":
                self._from(T["delitem"], [a["key"]])
            elif meth == "insert":
                self.rejects = z3.Not(al(a["item"]))
                self._from(T["insert"], [a["index"], P(a["item"])])
            elif meth == "append":
                self.rejects = z3.Not(al(a["item"]))
                self._from(T["append"], [P(a["item"])])
            elif meth in ("extend", "__iadd__"):
                li = bs.list_of(a["iterable"])
                self.rejects = z3.Not(al(li))
                self._from(T["extend"], [P(li)])
                if meth == "__iadd__":
                    self.result = "self"
            elif meth == "remove":
                self._from(T["remove"], [P(a["value"])])
            elif meth == "pop":
                self._from(T["pop"], [a["index"]])
            elif meth == "reverse":
                self._from(T["reverse"], [])
            elif meth == "clear":
                self._from(T["clear"], [])
                self.whole = True
            elif meth == "reset":
                d = a["data"]
                self.raises = [("ValueError", z3.Not(core.is_sequence(d)))]
                self.new_eq = lambda v: bs.plain(d)
                self.rejects = "any"
                self.whole = True
            elif meth == "__getitem__":
                self._from(T["getitem"], [a["key"]])
            elif meth == "__iter__":
                self._from(T["iter"], [])
            elif meth == "__len__":
                self._from(T["len"], [])
            elif meth == "__reversed__":
                self._from(T["reversed"], [])
            elif meth == "__contains__":
                self._from(T["contains"], [a["key"]])
            elif meth == "index":
                self._from(T["index"], [a["value"]])
            elif meth == "count":
                self._from(T["count"], [a["value"]])
            elif meth in ("index3", "index2"):
                # list.index(x, start, stop): negative bounds are taken relative to the length (start clamped at 0);
                # the least i with lo <= i < hi, 0 <= i < len, element i is / == x; ValueError if there is none
                x_, s_, e_ = a["value"], a["start"], a.get("stop")
                def bounds(v):
                    n_ = bs.list_len(v)
                    lo = z3.If(s_ < 0, z3.If(n_ + s_ >= 0, n_ + s_, z3.IntVal(0)), s_)
                    hi = n_ if e_ is None else z3.If(e_ < 0, e_ + n_, e_)
                    return VInt(lo), VInt(hi)
                self.raises = [("ValueError", lambda v: z3.Not(bs.list_contains_in(v, x_, *bounds(v))))]
                self.result = lambda v: bs.list_index_in(v, x_, *bounds(v))
                # [SPEC-BUILTIN] definitional instance for the expected term itself: a hit lies inside the bounds
                def spec_axioms(v):
                    lo_, hi_ = bounds(v)
                    r_ = bs.list_index_in(v, x_, lo_, hi_)
                    return [z3.Implies(bs.list_contains_in(v, x_, lo_, hi_),
                                       z3.And(r_ >= 0, r_ >= Val.i(lo_), r_ < Val.i(hi_), r_ < bs.list_len(v)))]
                self.axioms = spec_axioms
            elif meth == "__call__":
                self.result = lambda v: v
            elif meth == "__eq__":
                self.result = lambda v: pyeq(v, a["other"])
            elif meth in ("__lt__", "__le__", "__gt__", "__ge__"):
                f = bs.list_cmp[meth.strip("_")]
                self.result = lambda v: f(v, a["other"])
            elif meth == "__repr__":
                self._from(T["repr"], [])
            elif meth == "__str__":
                self._from(T["str"], [])
            else:
                raise KeyError(meth)

    def _from(self, spec, args):
        self.raises = [(e, (lambda c, cond=cond: cond(c, args))) for (e, cond) in spec.get("raises", [])]
        if "result" in spec:
            self.result = lambda v: spec["result"](v, args)
        if "new" in spec:
            self.new = lambda v: spec["new"](v, args)


# --- one instance -------------------------------------------------------------------------------------
class Instance:
    def __init__(self, cname, role, rootkind, meth, operand="plain", buffered=False):
        self.cname, self.role, self.rootkind, self.meth, self.operand = cname, role, rootkind, meth, operand
        self.buffered = buffered       # C05: the same obligations with the buffer's logical store as the resource

    def label(self, fi):
        r = self.role if self.role == "root" else f"nested-in-{self.rootkind}"
        if self.operand != "plain":
            r += "+synced-operand"
        if self.buffered:
            r += "+buffered"
        return f"{self.cname}.{self.meth}@{fi.qualname}/{r}"


COMPARISONS = ("__eq__", "__lt__", "__le__", "__gt__", "__ge__")


def symbolic_args(spec, st):
    a = {}
    vals = []
    for p in spec["params"]:
        if p in spec.get("ints", ()):
            t = smt.fresh("arg_" + p, IntS)        # an integer argument
            a[p] = t
            vals.append(Iv(t))
            continue
        t = smt.fresh("arg_" + p)
        # arguments range over plain (JSON-like or arbitrary) values; synced operands are separate instances
        st.assume(z3.Not(smt.is_VRef(t)), t != VAbsent)
        a[p] = t
        vals.append(Z(t, None, {"arg": p, "plain": True}))
    kw = None
    if spec.get("kwargs"):
        t = smt.fresh("arg_kwargs")
        st.assume(z3.Not(smt.is_VRef(t)))
        a["**"] = t
        kw = KwV({})
        kw.symbolic = t
    return a, vals, kw


def type_facts(eng, st, classes):
    """Ground facts about the concrete repo classes involved ([E-ABC], from reflection)."""
    for ci in classes:
        info = eng.R["classes"][ci.name]
        t = z3.IntVal(smt.tid_of(ci.name))
        for an, val in info["isa"].items():
            st.assume(smt.inst(t, z3.IntVal(smt.tid_of(an))) == z3.BoolVal(bool(val)))
        for other in eng.R["classes"]:
            st.assume(smt.inst(t, z3.IntVal(smt.tid_of(other))) == z3.BoolVal(other in info["mro"]))


def run_instance(eng, prover, inst, props):
    P = eng.P
    s = scn.make_scene(eng, inst.cname, inst.role, inst.rootkind, second=("other" if inst.operand == "synced" else False))
    st = s.st
    kind = scn.kind_of_class(eng, s.cls)
    spec = api_of(kind)[inst.meth]
    r = P.lookup_method(s.cls, spec.get("method", inst.meth))
    if r is None or isinstance(r, tuple):
        raise Unsupported(f"{inst.cname}.{inst.meth} does not resolve to a function")
    fi = r
    base = inst.label(fi)
    # property-level preconditions: quiescent; unbuffered - or, for the C05 instances, buffered with the buffer
    # invariants (the effective store is then the logical content of the root's file)
    st.assume(s.susp0 == 0)
    buffered = getattr(inst, "buffered", False)
    if buffered:
        from props import buffers as PB
        PB.buffer_inv(eng, s, st, s.root)
        st.ghost["skolem_files"] = [s.other_file]
        rrec = st.rec(s.root)
        st.assume(z3.Or(as_int(st.rec(rrec.fields["buffered"]).fields["_count"]) > 0,
                        as_int(st.rec(st.statics[(rrec.cls.name, "_buffer_context")]).fields["_count"]) > 0))
    elif s.buffered:
        for a, rec in st.objs.items():
            if rec.tag.startswith("buffered:") or rec.tag.startswith("bufctx:"):
                st.assume(as_int(rec.fields["_count"]) == 0)

    def store(state):
        """The effective store at the root's resource: the resource - or the buffer's logical content."""
        if not buffered:
            return state.sel("Res", rid)
        from contracts.buffers import Buf
        return Buf(eng, state, state.rec(s.root).cls.name).logical(rid)

    same = pyeq if buffered else (lambda u, v: u == v)
    fam = scn.family(eng, s.cls)
    type_facts(eng, st, set([s.cls, s.rootcls, fam[0], fam[1]]))
    a, vals, kw = symbolic_args(spec, st)
    if inst.operand == "synced":
        # the operand is another synced object of the same class (its own tree, its own resource)
        vals = [s.o2]
    pre = st.copy()
    info = core.node(type("C", (), {"eng": eng})(), pre, s.self_)
    n, rn, rid = info["n"], info["rn"], info["rid"]
    alias = spec.get("alias", inst.meth)
    if spec.get("attr"):
        # C18: a key that is neither a protected internal name nor a dunder (and, for reads, not an attribute of
        # the class: __getattr__ is only reached when ordinary lookup failed)
        prot = eng.class_attr(st.copy(), s.cls, "_PROTECTED_KEYS", s.self_, True)[0][1]
        k = a["key"]
        st.assume(smt.is_VStr(k), z3.Not(smt.F("str_startswith", Val, Val, BoolS)(k, to_val(Const("__")))))
        for pk in sorted(prot.v):
            st.assume(k != to_val(Const(pk)))
        pre = st.copy()
    exp = Expect(eng, s.cls, kind, alias, a)
    if inst.meth == "__getattr__":
        exp.raises = [("AttributeError", c) for (e, c) in exp.raises]
    # loops executed inside the method (inherited stdlib mixins) report their invariant obligations here
    eng.prover = prover
    eng.goal_prefix = f"C03/{base}"
    outs = run_with_kwargs(eng, st, fi, [s.self_] + vals, kw)
    V0 = pre.sel("View", n)
    R0 = store(pre)
    npaths = 0
    for (x, res) in outs:
        npaths += 1
        faulty = any(e[0] == "io-fault" for e in x.events)
        loads = [(i, e) for i, e in enumerate(x.events) if e[0] == "load" and e[1] == s.root.addr]
        first_access = next((i for i, e in enumerate(x.events) if e[0] in ("cell-read", "cell-write")
                             and e[1] in (s.self_.addr, s.root.addr)), None)
        normal = not isinstance(res, Raise)
        # view of the receiver right after the operation's own load (or at entry when it did not load)
        if loads:
            Vload = loads[-1][1][3][s.self_.addr]
            VloadRoot = loads[-1][1][3][s.root.addr]
        else:
            Vload, VloadRoot = V0, pre.sel("View", rn)
        Vend = x.sel("View", n)
        VendRoot = x.sel("View", rn)
        arbitrary_iteration = spec["kind"] == "read" and any(t[0][0] == "loop-iteration" for t in x.trace if isinstance(t[0], tuple))
        if not loads and arbitrary_iteration:
            # a read whose path is one ARBITRARY iteration of a loop (loop rule: the events of the earlier iterations -
            # their loads included - are not on this path): the view the result is judged against is the one of the
            # iteration's state, which the loop invariant relates to the backend content as of the call
            Vload, VloadRoot = Vend, VendRoot
        if inst.operand == "synced":
            a["other"] = x.sel("View", z3.IntVal(s.o2.addr))
            exp = Expect(eng, s.cls, kind, alias, a)
        ctx = dict(path=npaths)

        if "C10" in props:
            # (a) balance on EVERY exit, normal or exceptional
            prover.goal(f"C10/{base}/balance:locks", x, x.g["Depth"] == pre.g["Depth"], info=ctx)
            prover.goal(f"C10/{base}/balance:suspend-count",
                        x, as_int(x.rec(s.susp).fields["_count"]) == s.susp0, info=ctx)
            for e in x.events:
                if e[0] == "lock-exit":
                    prover.goal(f"C10/{base}/release-only-held", prefix_state(x, e), e[3] > 0, info=ctx)
            from props.locks import check_lock_order
            check_lock_order(eng, prover, f"C10/{base}/lock-order", x, ctx)

        for qp in ("C01", "C02", "C04"):
            if qp in props and not faulty:
                # the next operation's proof starts from a quiescent state: this one leaves the shared suspend counter as
                # it found it on EVERY exit (a raised counter silently disables the next load and save)
                prover.goal(f"{qp}/{base}/quiescent:suspend-count-restored",
                            x, as_int(x.rec(s.susp).fields["_count"]) == s.susp0, info=ctx)

        if "C18" in props:
            prot_names = None
            for e in x.events:
                if e[0] == "attr-store":
                    if prot_names is None:
                        pk = eng.class_attr(x.copy(), x.rec(ObjV(e[1])).cls, "_PROTECTED_KEYS", ObjV(e[1]), True)[0][1]
                        prot_names = pk.v
                    ok = e[2] in prot_names or e[2].startswith("__")
                    prover.structural(f"C18/{base}/internal-attribute-is-protected", ok, x, dict(ctx, name=e[2], where=e[3]))
                elif e[0] == "requires" and str(e[2]).startswith("Inv.node:"):
                    # a node's container is only ever (re)bound to a container of scalars and family nodes
                    prover.goal(f"C18/{base}/store-site:{e[2]}", x, e[3], info=ctx)
        if "C09" in props and spec["kind"] == "mutator":
            check_guarded(eng, prover, "C09", base, x, s, ctx)
        if "C14" in props:
            check_guarded(eng, prover, "C14", base, x, s, ctx)
        if "C16" in props:
            check_c16(eng, prover, base, x, res, s, ctx, inst.meth)
        if "C11" in props:
            check_c11(eng, prover, base, x, res, s, pre, n, rn, rid, ctx, kind, inst.meth,
                      (loads[-1][1][3][s.root.addr] if loads else pre.sel("View", rn)))
        if spec["kind"] == "read":
            if "C17" in props:
                prover.goal(f"C17/{base}/frame:no-resource-effect", x,
                            z3.And(x.g["Res"] == pre.g["Res"], x.g["Wr"] == pre.g["Wr"]), info=ctx)
                if buffered and not faulty:
                    prover.goal(f"C17/{base}/frame:logical-content-kept", x,
                                z3.Implies(R0 != VAbsent, same(store(x), R0)), info=ctx)
                prover.structural(f"C17/{base}/no-save-event", not any(e[0] == "save" for e in x.events), x, ctx)
            if "C02" in props and not faulty:
                ok = bool(loads) and (first_access is None or loads[0][0] < first_access)
                if not loads and first_access is None and arbitrary_iteration:
                    # one arbitrary iteration of a read loop that neither loads nor touches the in-memory tree
                    # (Sequence.index leaving through `i < stop`): nothing cached is read on this path
                    ok = True
                prover.structural(f"C02/{base}/load-before-read", ok, x, ctx)
                if loads:
                    prover.goal(f"C02/{base}/loads-current-content", x, loads[0][1][2] == R0, info=ctx)
            if "C03" in props and not faulty:
                check_result_and_errors(eng, prover, "C03", base, x, res, exp, Vload, pre, ctx, s, a)
            continue

        # ---- mutators
        if "C01" in props and normal:
            prover.goal(f"C01/{base}/ensures:stored", x, same(store(x), VendRoot), info=ctx)
        if "C03" in props and not faulty:
            check_result_and_errors(eng, prover, "C03", base, x, res, exp, Vload, pre, ctx, s, a)
            if normal:
                if exp.new is not None:
                    prover.goal(f"C03/{base}/ensures:content", x, Vend == exp.new(Vload), info=ctx)
                elif exp.new_eq is not None:
                    prover.goal(f"C03/{base}/ensures:content", x, pyeq(Vend, exp.new_eq(Vload)), info=ctx)
            else:
                # a built-in error (missing key, bad index, absent element) leaves content and backend unchanged
                if is_builtin_error_path(x):
                    prover.goal(f"C03/{base}/raises:content-unchanged", x,
                                z3.And(Vend == Vload, VendRoot == VloadRoot), info=ctx)
                    prover.goal(f"C03/{base}/raises:backend-unchanged", x,
                                z3.Or(same(store(x), VloadRoot), same(store(x), R0)), info=ctx)
        if "C04" in props and normal:
            # applied to the resource content AT THE TIME OF THE CALL (which must exist and hold the receiver's
            # position): view'(root) ~ put_in(R0, self, op(sub_of(R0, self)))
            pos = VRef(n)
            if "C18" in props:
                pass
            if inst.role == "root":
                cur = R0
                mk = lambda y: y
            else:
                cur = bs.sub_of(R0, pos)
                def mk(y):
                    if z3.is_app(y) and y.decl().kind() == z3.Z3_OP_ITE:
                        c_, a_, b_ = y.children()
                        return z3.If(c_, mk(a_), mk(b_))
                    return bs.put_in(R0, pos, y)
            tgt = exp.new(cur) if exp.new is not None else (exp.new_eq(cur) if exp.new_eq is not None else None)
            if tgt is not None:
                extra = [R0 != VAbsent]
                prover.goal(f"C04/{base}/ensures:applied-to-current-content", x,
                            pyeq(VendRoot, mk(tgt)), extra=extra, info=ctx)
    if npaths == 0:
        raise Unsupported("no feasible path through " + base)
    return base, npaths, fi


def run_with_kwargs(eng, st, fi, args, kw):
    if kw is None:
        return eng.run_function(st, fi, args)
    q = fi.qualname
    eng.no_contract.add(q)
    try:
        loc = eng.bind_params(fi, args, {})
        loc[fi.node.args.kwarg.arg] = kw
        saved_loc, saved_frames = st.loc, st.frames
        st.frames = saved_frames + [fi]
        for k, v in list(loc.items()):
            if isinstance(v, tuple) and v and v[0] == "$default":
                st.loc = {}
                loc[k] = eng.ev(v[1], st)[0][1]
        st.loc = loc
        outs = []
        for (x, o) in eng.run_block(fi.body, st):
            x.loc, x.frames = dict(saved_loc), list(saved_frames)
            if o is None:
                outs.append((x, Const(None)))
            elif o[0] == "return":
                outs.append((x, o[1]))
            else:
                outs.append((x, Raise(o[1])))
        return outs
    finally:
        eng.no_contract.discard(q)


def prefix_state(x, event):
    return x


def is_builtin_error_path(x):
    return any(e[0] == "builtin-raise" for e in x.events)


def check_result_and_errors(eng, prover, pid, base, x, res, exp, Vload, pre, ctx, s, a):
    """ensures:result on normal exits; raises:same-class on exceptional ones; and no built-in error condition
    is silently ignored on a normal exit."""
    normal = not isinstance(res, Raise)
    conds = [(e, (c(Vload) if callable(c) else c)) for (e, c) in exp.raises]
    for ax_ in (exp.axioms(Vload) if getattr(exp, "axioms", None) else ()):
        x.assume(ax_)
    rej = exp.rejects(Vload) if callable(exp.rejects) else exp.rejects
    if normal:
        for (e, c) in conds:
            prover.goal(f"{pid}/{base}/raises:error-not-swallowed", x, z3.Not(c), info=ctx)
        if rej is not None and not isinstance(rej, str):
            prover.goal(f"{pid}/{base}/raises:forbidden-rejected", x, z3.Not(rej), info=ctx)
        if exp.result is not None:
            if exp.result == "self":
                ok = isinstance(res, ObjV) and res.addr == s.self_.addr
                prover.structural(f"{pid}/{base}/ensures:result", ok, x, ctx)
            else:
                want = exp.result(Vload)
                if want.sort() == BoolS:
                    got = as_bool(res)
                elif want.sort() == IntS:
                    got = as_int(res)
                elif isinstance(res, Z) and res.meta.get("plain"):
                    got = to_val(res)            # known (python side) to be a plain value: no node inside
                else:
                    got = eng.intr.iv(x, res)
                prover.goal(f"{pid}/{base}/ensures:result", x, got == want, info=ctx)
        elif exp.result is None:
            prover.goal(f"{pid}/{base}/ensures:result", x, to_val(res) == VNone, info=ctx)
    else:
        exc = res.exc
        alts = []
        for (e, c) in conds:
            names = e if isinstance(e, tuple) else (e,)
            if callable(e):
                continue
            alts.append(z3.And(c, eng.exc_isinstance(exc, names)))
        for (e, c) in conds:
            if callable(e):   # list setitem: the class the built-in raises
                alts.append(z3.And(c, exc.cls_term == e(Vload, [a["key"], bs.plain(a["value"])])))
        if rej is not None:
            if isinstance(rej, str):
                alts.append(eng.exc_isinstance(exc, ("TypeError", "ValueError")))
            else:
                alts.append(z3.And(rej, eng.exc_isinstance(exc, ("TypeError", "ValueError"))))
        prover.goal(f"{pid}/{base}/raises:same-class", x, smt.or_(alts), info=ctx)


def as_bool(v):
    if isinstance(v, Bv):
        return v.term
    if isinstance(v, Const) and isinstance(v.v, bool):
        return z3.BoolVal(v.v)
    if isinstance(v, Z):
        return Val.b(v.term)
    raise Unsupported("not a bool: " + repr(v))


def run_task(eng, prover, task, out):
    """Pool entry: all requested methods of one (class, role) scene."""
    props = set(task["props"])
    bufd = bool(task.get("buffered"))
    insts = [Instance(task["cname"], task["role"], task["rootkind"], m, buffered=bufd) for m in task["methods"]]
    if not bufd:
        # (comparisons with ANOTHER synced object are verified in unbuffered mode only: in buffered mode the second
        # object may live in another class's buffer, whose invariants the scene does not state)
        insts += [Instance(task["cname"], task["role"], task["rootkind"], m, "synced") for m in task["methods"]
                  if m in COMPARISONS]
    for inst in insts:
        m = inst.meth
        try:
            base, npaths, fi = run_instance(eng, prover, inst, props)
            out["paths"] += npaths
            out["functions"][fi.qualname] = fi.sha()
        except Unsupported as e:
            out["unsupported"].append({"instance": f"{task['cname']}.{m}/{task['role']}", "reason": str(e)})
    if task.get("rename_to"):
        # the obligations of an aliased operation (attribute syntax) belong to the property that asked for them
        for name in list(prover.obs):
            pid_, rest = name.split("/", 1)
            if pid_ != task["rename_to"]:
                o = prover.obs.pop(name)
                o.name = task["rename_to"] + "/" + pid_.lower() + ":" + rest
                prover.obs[o.name] = o
    for q in list(eng.inlined) + list(eng.used_contracts):
        f = find_function(eng, q)
        if f is not None:
            out["functions"].setdefault(f.qualname, f.sha())


def find_function(eng, q):
    for fi in eng.P.all_functions():
        if fi.qualname == q:
            return fi
    return None


STORE_ARG = {"setitem": 1, "insert": 1, "append": 0, "extend": 0, "iadd": 0}
SINGLE_ELEMENT = {"__setitem__", "setdefault", "insert", "append"}


def contains_term(big, small):
    return any(e.eq(small) for e in smt.subterms([big]))


def check_c11(eng, prover, base, x, res, s, pre, n, rn, rid, ctx, kind, meth, VloadRoot):
    """Entry-point obligations of C11 on one path of a mutator."""
    # (i) callee preconditions stated for C11 (data handed over as 'already validated' is admissible)
    for e in x.events:
        if e[0] == "requires" and str(e[2]).startswith("C11:"):
            prover.goal(f"C11/{base}/callee-requires:{e[2]}", x, e[3], info=ctx)
    # (ii) validate-before-store: every value stored into the receiver's container was produced by _from_base
    # from a source that the RECEIVING node validated earlier in this call
    validated = [(i, e) for i, e in enumerate(x.events) if e[0] == "validated" and e[1] == s.self_.addr]
    for i, e in enumerate(x.events):
        if e[0] != "cell-write" or e[1] != s.self_.addr or e[2] not in STORE_ARG:
            continue
        vals = e[6] if len(e) > 6 else ()
        idx = STORE_ARG[e[2]]
        if idx >= len(vals):
            continue
        v = vals[idx]
        src = v.meta.get("fb_src") if isinstance(v, Z) else None
        if src is None:
            src = to_val(v)
        ok = any(j < i and contains_term(ev[2], src) for j, ev in validated)
        prover.structural(f"C11/{base}/protocol:validate-before-store", ok, x, dict(ctx, op=e[2]))
        if kind == "dict" and e[2] == "setitem":
            key = e[5][0]
            okk = any(j < i and contains_term(ev[2], key) for j, ev in validated)
            prover.structural(f"C11/{base}/protocol:key-validated-before-store", okk, x, dict(ctx, op=e[2]))
    # (iii) a rejected single-element operation changes nothing
    rejected = any(e[0] == "rejected" for e in x.events)
    faulty = any(e[0] == "io-fault" and e[1] != "unserialisable" for e in x.events)
    if rejected and isinstance(res, Raise) and meth in SINGLE_ELEMENT and not faulty:
        # (the operation may have re-loaded memory from the resource and re-saved that same content)
        R0 = pre.sel("Res", rid)
        prover.goal(f"C11/{base}/raises:rejected-changes-nothing", x,
                    z3.And(x.sel("View", rn) == VloadRoot,
                           z3.Or(x.sel("Res", rid) == R0, x.sel("Res", rid) == VloadRoot)), info=ctx)
    # (iv) data invariant: the receiver's content stays admissible


DETACHED_RESULTS = {"__call__", "values", "items"}


def check_c16(eng, prover, base, x, res, s, ctx, meth):
    """C16 on one path: (1) every value stored into the receiver's container is the product of _from_base (a fresh
    copy: contract clause C16:fresh, proved on the constructors) — never the caller's object itself;
    (2) (), values(), items() hand out data derived from _to_base() only (plain, fresh: contract of _to_base)."""
    for e in x.events:
        if e[0] != "cell-write" or e[1] != s.self_.addr or e[2] not in STORE_ARG:
            continue
        vals = e[6] if len(e) > 6 else ()
        idx = STORE_ARG[e[2]]
        if idx >= len(vals):
            continue
        v = vals[idx]
        converted = isinstance(v, Z) and v.meta.get("fb_src") is not None
        prover.structural(f"C16/{base}/store-site:value-is-a-converted-copy", converted, x, dict(ctx, op=e[2]))
    for e in x.events:
        if e[0] == "requires" and str(e[2]).startswith("C16:"):
            prover.goal(f"C16/{base}/store-site:{e[2]}", x, e[3], info=ctx)
    if meth in DETACHED_RESULTS and not isinstance(res, Raise):
        ok = isinstance(res, Z) and bool(res.meta.get("plain"))
        prover.structural(f"C16/{base}/result:derived-from-_to_base-only", ok, x, ctx)


TREE_CONTRACTS = ("_load", "_save", "_update", "SyncedCollection._from_base", "SyncedCollection._from_base.map", "_to_base",
                  "virtual:_update", "virtual:_to_base", "_load_from_resource", "_save_to_resource")


def tree_accesses(x, s):
    """Indices of the events that read or write the shared state of the receiver's tree: its containers, the shared
    suspend counter, the resource."""
    nodes = {n.addr for n in s.nodes}
    out = []
    for i, e in enumerate(x.events):
        k = e[0]
        if k in ("cell-read", "cell-write") and e[1] in nodes:
            out.append(i)
        elif k == "contract" and e[1] in TREE_CONTRACTS and not (e[1].startswith("SyncedCollection._from_base") and e[2] == "leaf") \
                and e[2] not in ("suspended",):
            out.append(i)
        elif k in ("load", "save", "data-rebound"):
            out.append(i)
        elif k == "field-store" and e[1] == s.susp.addr:
            out.append(i)
    return out


def check_guarded(eng, prover, pid, base, x, s, ctx):
    """Lock discipline (DESIGN 6 C09/C14): every access to the tree's shared state is made while the ONE lock of the
    root's file is held, and that lock is not released between the first and the last access of the call."""
    info = eng.R["classes"][s.rootcls.name]
    if not (eng.mode.get("threads") and info["supports_threading"]):
        return
    acc = tree_accesses(x, s)
    if not acc:
        prover.structural(f"{pid}/{base}/guarded:tree-state", True, x, ctx)
        return
    lid = smt.F("lockid", IntS, Val, IntS)(z3.IntVal(smt.tid_of(s.rootcls.name)), to_val(x.rec(s.root).fields["_filename"]))
    held = []
    for i in range(acc[0], acc[-1] + 1):
        d = x.evdepth[i]
        if d is not None:
            held.append(z3.Select(d, lid) >= 1)
    prover.goal(f"{pid}/{base}/guarded:tree-state-under-one-hold-of-the-file-lock", x, smt.and_(held),
                info=dict(ctx, first_access=str(x.events[acc[0]][:3]), n_accesses=len(acc)))
