"""Quiescence at every point where control goes back to the caller.

The per-operation proofs of C01 / C02 / C04 (and the lock balance of C10) start from a QUIESCENT state: the tree's
shared suspend counter is 0 and no lock is held.  For ordinary functions that state is re-established at every exit
(obligations `quiescent:suspend-count-restored` / `balance:*`, proved per path).  A GENERATOR method has further
points at which control returns to the caller: its `yield`s.  The executed subset has no generators, so the exit
obligation at a yield is decided structurally on the real AST, on every run:

    a public method of a synced class never yields inside a `with` region that suspends synchronisation or holds
    one of the library's locks (`_suspend_sync`, `_load_and_save`, `_thread_lock`, `_buffer_lock`, `_cls_lock`,
    `buffered`, `buffer_backend`)

(a yield there hands control to the caller with the counter raised / the lock held: every mutation issued before the
generator is resumed is then neither loaded nor saved).  Decided by inspection of the AST - labelled `structural` in
the evidence, not a solver verdict."""
import ast

GUARDS = ("_suspend_sync", "_load_and_save", "_thread_lock", "_buffer_lock", "_cls_lock", "_BUFFER_LOCK", "buffered",
          "buffer_backend", "_buffer_context", "_locks")


def guarded_yields(fn):
    """-> [(lineno, guard name)] for every yield of `fn` (not of nested functions) inside a guarded with-region."""
    out = []

    def names_of(expr):
        return [n.attr for n in ast.walk(expr) if isinstance(n, ast.Attribute)] + \
               [n.id for n in ast.walk(expr) if isinstance(n, ast.Name)]

    def visit(node, guards, top=False):
        if not top and isinstance(node, (ast.FunctionDef, ast.AsyncFunctionDef, ast.Lambda, ast.ClassDef)):
            return
        if isinstance(node, (ast.Yield, ast.YieldFrom)) and guards:
            out.append((node.lineno, guards[-1]))
        if isinstance(node, (ast.With, ast.AsyncWith)):
            g = list(guards)
            for it in node.items:
                visit(it.context_expr, guards)
                g += [n for n in names_of(it.context_expr) if n in GUARDS]
            for b in node.body:
                visit(b, g)
            return
        for ch in ast.iter_child_nodes(node):
            visit(ch, guards)

    visit(fn, [], top=True)
    return out


def is_generator(fn):
    for n in ast.walk(fn):
        if isinstance(n, (ast.Yield, ast.YieldFrom)):
            return True
    return False


def run_task(eng, prover, task, out):
    P = eng.P
    pid = task["props"][0]
    for cname in task["classes"]:
        ci = P.classes[cname]
        seen = set()
        for base_ci in P.mro(ci):
            for mname, fi in list(base_ci.methods.items()) + [(k, v.get("get")) for k, v in base_ci.properties.items()]:
                if fi is None or mname in seen:
                    continue
                seen.add(mname)
                if mname.startswith("_") and not (mname.startswith("__") and mname.endswith("__")):
                    continue
                bad = guarded_yields(fi.node)
                prover.structural(f"{pid}/{cname}.{mname}@{fi.qualname}/quiescent:no-yield-inside-a-sync-region",
                                  not bad, None, {"yields": [f"line {ln} inside `with ... {g}`" for ln, g in bad],
                                                  "generator": is_generator(fi.node)})
                out["functions"][fi.qualname] = fi.sha()
