"""C11 / C12 value tier: validator bodies against their contracts, the lemma json_ok => strkeys, and the
class-level obligations  allowed_C(v) <=> spec_C(v)  for every concrete class."""
import z3

from pyvc import smt
from pyvc.values import Z, State, Unsupported
from props import defs
from contracts import validators as V
from contracts import core

ATTR_CLASSES = ("JSONAttrDict", "JSONAttrList", "BufferedJSONAttrDict", "BufferedJSONAttrList",
                "MemoryBufferedJSONAttrDict", "MemoryBufferedJSONAttrList")


def spec_allowed(cname, v):
    """What the PROPERTY says class `cname` must admit / reject (C11, C12)."""
    if cname.startswith("Zarr"):
        return V.strkeys(v)
    if cname in ATTR_CLASSES:
        return z3.And(V.json_ok(v), V.nodot(v))
    return V.json_ok(v)


def bare_state():
    st = State()
    st.g["Alloc"] = smt.fresh("Alloc", smt.IntS)
    return st


def lemma_json_implies_strkeys(prover, pid):
    """json_ok(v) => strkeys(v), by structural induction on finite values: proved for an arbitrary v assuming
    it for v's immediate components (instantiated at the components the witnesses select)."""
    st = bare_state()
    v = smt.fresh("v")
    st.assume(V.type_discipline(v))
    ws = V.witness("strkeys")(v)
    for f in V.unfold("json_ok", v, [ws]) + V.unfold("strkeys", v, [ws]):
        st.assume(f)
    # induction hypothesis at the components chosen by strkeys' witness
    for comp in (V.item_val(v, ws), V.seq_at(v, ws)):
        st.assume(z3.Implies(V.json_ok(comp), V.strkeys(comp)))
    prover.goal(f"{pid}/lemma:json_ok-implies-strkeys/induction-step", st, z3.Implies(V.json_ok(v), V.strkeys(v)))


def run_task(eng, prover, task, out):
    pid = task["props"][0]
    what = task["what"]
    if what == "validators":
        for fname in task["functions"]:
            fi = eng.P.functions[fname]
            st = bare_state()
            st.frames = []
            t = smt.fresh("arg_data")
            st.assume(z3.Not(smt.is_VRef(t)), V.type_discipline(t))
            for pname in V.VALIDATOR_PREDS[fname]:
                for f in V.unfold(pname, t, []):
                    st.assume(f)
            data = Z(t, None, {"plain": True})
            try:
                n = defs.verify_contract(eng, prover, pid, fname + "@" + fi.qualname + "/value", fi,
                                         eng.contracts[fname], st, [data])
                out["paths"] += n
                out["functions"][fi.qualname] = fi.sha()
            except Unsupported as e:
                out["unsupported"].append({"instance": fname, "reason": str(e)})
    elif what == "lemma":
        lemma_json_implies_strkeys(prover, pid)
    elif what == "classes":
        for cname in task["classes"]:
            ci = eng.P.classes[cname]
            st = bare_state()
            v = smt.fresh("v")
            st.assume(V.type_discipline(v))
            al = core.allowed(eng, ci, v)
            sp = spec_allowed(cname, v)
            if pid == "C11":
                prover.goal(f"C11/class:{cname}/validators-imply-spec", st, z3.Implies(al, sp))
            else:
                # lemma instance (proved separately in this property's run)
                st.assume(z3.Implies(V.json_ok(v), V.strkeys(v)))
                prover.goal(f"C12/class:{cname}/spec-implies-validators-accept", st, z3.Implies(sp, al))
    from props import api
    for q in list(eng.inlined) + list(eng.used_contracts):
        f = api.find_function(eng, q)
        if f is not None:
            out["functions"].setdefault(f.qualname, f.sha())
