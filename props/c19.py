"""C19 — classification is history-independent.

AbstractTypeResolver.get_type is verified, for each of the module-level resolvers actually constructed by the
package (their identifier lambdas and cache blocklists are read from the real module-level assignments), against

   result == FM(obj)          FM = tag of the first identifier lambda that accepts obj, else None

under the cache invariant  "type_map[t] == FM(o) for EVERY object o of type t",  and the invariant is proved to be
preserved: on the path that writes the cache for type(obj), the value written equals FM(o2) for an arbitrary
second object o2 of the same type.  That last obligation is where type-determinism of the identifier lambdas
(off the blocklist the code really applies) is needed; the lambdas are the real ones, executed symbolically.
Also: no function other than get_type / __init__ touches type_map (syntactic scan of the extracted sources)."""
import ast

import z3

from pyvc import smt
from pyvc.smt import Val, VRef, IntS
from pyvc.values import Z, Const, ObjV, TupleV, PyDictV, State, Raise, ResolverV, Unsupported, to_val
from pyvc import builtins_spec as bs

RESOLVERS = [
    ("synced_collections.data_types.synced_collection", "_sc_resolver"),
    ("synced_collections.data_types.synced_collection", "_collection_resolver"),
    ("synced_collections.data_types.synced_dict", "_mapping_resolver"),
    ("synced_collections.data_types.synced_list", "_sequence_resolver"),
    ("synced_collections.validators", "_no_dot_in_key_type_resolver"),
    ("synced_collections.validators", "_json_format_validator_type_resolver"),
    ("synced_collections.backends.collection_json", "_json_attr_dict_validator_type_resolver"),
]


def first_match(eng, st, res, obj):
    """FM(obj) as a z3 Val term (ite chain over the real lambdas); -> (term, extra assumptions)."""
    outs = eng.intr.b_resolver_get_type(eng, st, type("F", (), {"recv": res})(), [obj], {})
    term = None
    alts = []
    for (x, r) in outs:
        if isinstance(r, Raise):
            raise Unsupported("identifier raised")
        cond = smt.and_(x.pc[len(st.pc):])
        alts.append((cond, to_val(r)))
    term = alts[-1][1]
    for cond, v in reversed(alts[:-1]):
        term = z3.If(cond, v, term)
    return term


def run_task(eng, prover, task, out):
    P = eng.P
    fi = P.classes["AbstractTypeResolver"].methods["get_type"]
    out["functions"][fi.qualname] = fi.sha()
    if task["what"] == "scan":
        bad = []
        for f in P.all_functions():
            if f.module.stdlib or f.qualname in ("AbstractTypeResolver.get_type", "AbstractTypeResolver.__init__"):
                continue
            for n in ast.walk(f.node):
                if isinstance(n, ast.Attribute) and n.attr == "type_map":
                    bad.append(f.qualname)
        prover.structural("C19/scan/only-get_type-touches-the-cache", not bad, None, {"offenders": bad})
        # no other process-wide memory that a classification could depend on: module-level containers that are
        # mutated from inside functions, and `global` statements
        offenders = []
        MUT = {"add", "append", "extend", "update", "setdefault", "pop", "popitem", "remove", "discard", "insert",
               "clear", "appendleft"}
        for m in P.modules.values():
            if m.stdlib or m.tree is None:
                continue
            names = set()
            for stn in m.tree.body:
                v = getattr(stn, "value", None)
                if isinstance(stn, (ast.Assign, ast.AnnAssign)) and v is not None:
                    tg = stn.targets[0] if isinstance(stn, ast.Assign) else stn.target
                    mutable = isinstance(v, (ast.Dict, ast.List, ast.Set, ast.ListComp, ast.DictComp, ast.SetComp)) or (
                        isinstance(v, ast.Call) and isinstance(v.func, ast.Name)
                        and v.func.id in ("set", "dict", "list", "defaultdict", "OrderedDict", "Counter", "deque"))
                    if mutable and isinstance(tg, ast.Name) and tg.id != "__all__":
                        names.add(tg.id)
            for n in ast.walk(m.tree):
                if isinstance(n, ast.Global):
                    offenders.append(f"{m.name}: global {', '.join(n.names)}")
                if isinstance(n, (ast.FunctionDef, ast.Lambda)):
                    for k in ast.walk(n):
                        if isinstance(k, ast.Call) and isinstance(k.func, ast.Attribute) and k.func.attr in MUT \
                                and isinstance(k.func.value, ast.Name) and k.func.value.id in names:
                            offenders.append(f"{m.name}: {k.func.value.id}.{k.func.attr}(...) inside a function")
                        if isinstance(k, (ast.Subscript,)) and isinstance(k.ctx, (ast.Store, ast.Del)) \
                                and isinstance(k.value, ast.Name) and k.value.id in names:
                            offenders.append(f"{m.name}: {k.value.id}[...] written inside a function")
        prover.structural("C19/scan/no-other-process-wide-classification-memory", not offenders, None,
                          {"offenders": sorted(set(offenders))})
        return
    modname, rname = task["resolver"]
    m = P.modules[modname]
    base_st = State()
    base_st.frames = []
    res = eng.global_name(base_st, rname, module=m)
    if not isinstance(res, ResolverV):
        raise Unsupported(f"{rname} is not an AbstractTypeResolver(...) assignment")
    # the resolver object with the fields its __init__ stores
    st = State()
    for g, sort in (("Cell", smt.ArrIV), ("View", smt.ArrIV), ("Depth", smt.ArrII)):
        st.g[g] = smt.fresh(g, sort)
    st.g["Alloc"] = smt.fresh("Alloc", IntS)
    tm = smt.fresh("type_map_addr", IntS)
    if res.blocklist_expr is not None:
        st.frames = [type("Fr", (), {"module": res.module, "cls": None, "qualname": "<module>", "name": "<module>"})()]
        bl = eng.ev(res.blocklist_expr, st)[0][1]
        st.frames = []
        if isinstance(bl, Const) and bl.v is None:
            bl = TupleV([])
    else:
        bl = TupleV([])
    robj = st.new_obj(P.classes["AbstractTypeResolver"], {
        "abstract_type_identifiers": PyDictV([(Const(t), lam) for t, lam in res.tags]),
        "type_map": Z(VRef(tm), "dict", {}),
        "cache_blocklist": bl}, tag="resolver")
    o1 = smt.fresh("obj")
    o2 = smt.fresh("other_obj_same_type")
    v1, v2 = Z(o1, None, {"plain": True}), Z(o2, None, {"plain": True})
    st.assume(smt.tyof(o1) == smt.tyof(o2))
    fm1 = first_match(eng, st, res, v1)
    fm2 = first_match(eng, st, res, v2)
    tkey = smt.F("typeobj", Val, Val)(o1)
    st.assume(smt.F("typeobj", Val, Val)(o2) == tkey)
    cache0 = st.sel("Cell", tm)
    # cache invariant, instantiated at type(obj): a cached tag is FM of every object of that type
    st.assume(z3.Implies(bs.dict_has(cache0, tkey), z3.And(bs.dict_get(cache0, tkey) == fm1,
                                                             bs.dict_get(cache0, tkey) == fm2)))
    base = f"{rname}.get_type@{fi.qualname}/numpy={eng.mode.get('numpy')}"
    pre = st.copy()
    # identifiers may fail transiently (a fault that says nothing about the value, e.g. RecursionError raised inside an
    # ABC subclass hook at deep nesting): such a failure must never be turned into a verdict or into a cache entry
    eng.mode["identifier_faults"] = True
    try:
        outs = eng.run_function(st, fi, [robj, v1])
    except Unsupported as e:
        out["unsupported"].append({"instance": f"{rname}.get_type", "reason": str(e)})
        return
    finally:
        eng.mode["identifier_faults"] = False
    n = 0
    for (x, r) in outs:
        n += 1
        ctx = {"path": n}
        faulted = any(e[0] == "transient-fault" for e in x.events)
        if isinstance(r, Raise):
            if not faulted:
                prover.goal(f"C19/{base}/raises-nothing", x, z3.BoolVal(False), info=ctx)
            else:
                c1 = x.sel("Cell", tm)
                prover.goal(f"C19/{base}/fault:nothing-memoised", x,
                            z3.And(bs.dict_has(c1, tkey) == bs.dict_has(cache0, tkey),
                                   z3.Implies(bs.dict_has(c1, tkey), bs.dict_get(c1, tkey) == bs.dict_get(cache0, tkey))),
                            info=ctx)
            continue
        if faulted:
            # a fault was swallowed: the verdict and the cache must still be those of the value (obligations below)
            ctx = dict(ctx, swallowed_fault=True)
        prover.goal(f"C19/{base}/ensures:result-is-first-match", x, to_val(r) == fm1, info=ctx)
        cache1 = x.sel("Cell", tm)
        prover.goal(f"C19/{base}/cache-invariant-preserved:same-type-same-class", x,
                    z3.Implies(bs.dict_has(cache1, tkey), bs.dict_get(cache1, tkey) == fm2), info=ctx)
        t0 = smt.fresh("other_type")
        prover.goal(f"C19/{base}/cache-frame:other-types-untouched", x,
                    z3.Implies(t0 != tkey, z3.And(bs.dict_has(cache1, t0) == bs.dict_has(cache0, t0),
                                                  bs.dict_get(cache1, t0) == bs.dict_get(cache0, t0))), info=ctx)
    out["paths"] += n
    from props import api
    for q in list(eng.inlined) + list(eng.used_contracts):
        f = api.find_function(eng, q)
        if f is not None:
            out["functions"].setdefault(f.qualname, f.sha())
