"""Definition-side obligations: the BODY of every function under contract is verified against its contract
(DESIGN.md 2.2), per concrete class and receiver role.  Obligation names:
    Cxx/def:<Class>.<function>@<DefiningFunction>/<role>/<case>/<clause>"""
import z3

from pyvc import smt
from pyvc.values import Z, Bv, Iv, Const, ObjV, Raise, Unsupported, to_val, as_int
from pyvc.contracts import Cx, frame_obligations
from pyvc import scene as scn
from props import api


def verify_contract(eng, prover, pid, base, fi, contract, st, args, kwargs=None, assume=(), reach=(), path_hook=None):
    """`reach`: vacuity guards - (label, fn(pre, post, result) -> z3 Bool) pairs; each must be satisfiable together
    with the path condition of at least one exit path (obligation `reachable:<label>`)."""
    kwargs = kwargs or {}
    b = contract.bind(args, kwargs)
    for f in assume:
        st.assume(f)
    # Skolem constants of the pointwise (forall) clauses: created BEFORE the body runs so that the callee
    # contracts assumed inside the body are instantiated at them (DESIGN.md 2.4)
    st.ghost["skolem_res"] = [smt.fresh("skolem_res")]
    st.ghost["skolem_addr"] = [smt.fresh("skolem_addr", smt.IntS)]
    eng.prover = prover
    eng.goal_prefix = f"{pid}/def:{base}"
    pre = st.copy()
    cx0 = Cx(eng, pre, pre, b, "prove")
    for (label, r) in contract.requires(cx0):
        st.assume(r)
    outs = eng.run_function(st, fi, args, kwargs)
    cases = contract.cases(cx0)
    n = 0
    reached = {label: False for (label, _) in reach}
    for (x, res) in outs:
        n += 1
        for (label, fn) in reach:
            if not reached[label]:
                y = x.copy()
                y.assume(fn(pre, x, res))
                if eng.feasible(y):
                    reached[label] = True
        kind = "raise" if isinstance(res, Raise) else "normal"
        same = [c for c in cases if c.kind == kind]
        guards = []
        for c in same:
            g = c.guard(cx0)
            if kind == "raise":
                g = z3.And(g, eng.exc_isinstance(res.exc, c.exc))
            guards.append(g)
        ctx = {"path": n, "outcome": kind}
        prover.goal(f"{pid}/def:{base}/covered:{kind}-exit-allowed", x, smt.or_(guards), info=ctx)
        if path_hook is not None:
            path_hook(x, res, ctx)
        # modularity: the preconditions of the callees used inside the body hold at their call sites
        for e in x.events:
            if e[0] == "requires":
                prover.goal(f"{pid}/def:{base}/callee-requires:{e[1]}:{e[2]}", x, e[3], info=ctx)
        for c, g in zip(same, guards):
            y = x.copy()
            y.assume(g)
            key = f"{pid}/def:{base}/case:{c.label}"
            prover.case_reached.setdefault(key, False)
            if not eng.feasible(y):
                continue
            prover.case_reached[key] = True
            cx = Cx(eng, pre, x, b, "prove")
            if kind == "normal":
                cx.result = res
            else:
                cx.exc = res.exc
            for (label, cl) in c.post(cx):
                prover.goal(f"{pid}/def:{base}/{c.label}/{label}", x, cl, extra=[g], info=ctx)
            for (label, cl) in frame_obligations(eng, pre, x, c.modifies(cx)):
                prover.goal(f"{pid}/def:{base}/{c.label}/{label}", x, cl, extra=[g], info=ctx)
    if n == 0:
        raise Unsupported("no feasible path through " + base)
    for label, ok in reached.items():
        prover.structural(f"{pid}/def:{base}/reachable:{label}", ok, None, {"vacuity-guard": label})
    for c in cases:
        prover.case_reached.setdefault(f"{pid}/def:{base}/case:{c.label}", False)
    # vacuity guard: a definition none of whose NORMAL cases is reachable was verified against nothing
    normal = [c for c in cases if c.kind == "normal"]
    if normal:
        prover.structural(f"{pid}/def:{base}/reachable:some-normal-case",
                          any(prover.case_reached.get(f"{pid}/def:{base}/case:{c.label}") for c in normal), None, {})
    return n


def check_lifted_map(eng, prover, pid, cname, role, rootkind, out):
    """[L-MAP] discharged: the lifted `_from_base` contract used at the comprehensions of the constructors / extend is
    proved against the comprehension's explicit loop (contracts/lang_models.py) from the per-element contract."""
    from contracts import lang_models, tree as T
    from pyvc.smt import VInt
    from pyvc import builtins_spec as bs
    fns = lang_models.functions(eng)
    contract = eng.contracts["SyncedCollection._from_base.map"]
    for kind, fname in (("list", "_comp_list"), ("dict", "_comp_dict")):
        s = scn.make_scene(eng, cname, role, rootkind)
        st = s.st
        fam = scn.family(eng, s.cls)
        api.type_facts(eng, st, set([s.cls, s.rootcls, fam[0], fam[1]]))
        fi = fns[fname]
        t = smt.fresh("arg_xs")
        st.assume(z3.Not(smt.is_VRef(t)))
        xs = Z(t, None, {"plain": True})
        if kind == "dict":
            from contracts.core import is_mapping
            st.assume(is_mapping(t))

        def pointwise(c, r, xsv, kind=kind):
            spec, L = c.post.ghost["map_loop"]
            post = c.post
            if kind == "list":
                j0 = L.sk["j0"]
                return [("lifted:length", bs.list_len(r) == bs.list_len(xsv)),
                        ("lifted:element-is-leaf-or-fresh-family-node",
                         z3.Implies(z3.And(j0 >= 0, j0 < bs.list_len(xsv)),
                                    spec.item_ok(L, post, bs.list_get(r, VInt(j0)), bs.list_get(xsv, VInt(j0)))))]
            k0 = L.sk["k0"]
            return [("lifted:keys", bs.dict_has(r, k0) == bs.dict_has(xsv, k0)),
                    ("lifted:element-is-leaf-or-fresh-family-node",
                     z3.Implies(bs.dict_has(xsv, k0), spec.item_ok(L, post, bs.dict_get(r, k0), bs.dict_get(xsv, k0))))]
        st.ghost["map_pointwise"] = pointwise
        r_ = task_role(role, rootkind)
        base = f"{cname}.{fname}@lang_models.{fname}/{r_}"
        kwargs = {"$kind": Const("dict")} if kind == "dict" else {}
        try:
            n = verify_contract(eng, prover, pid, base, fi, contract, st, [s.self_, xs, s.self_])
            out["paths"] += n
        except Unsupported as e:
            out["unsupported"].append({"instance": f"{cname}.{fname}/{role}", "reason": str(e)})


def task_role(role, rootkind):
    return role if role == "root" else f"nested-in-{rootkind}"


DEF_FUNCS = {
    # function name -> (receiver roles, needs root)
    "_validate": ("any",),
    "_load": ("any",),
    "_save": ("any",),
    "_load_from_resource": ("root",),
    "_save_to_resource": ("root",),
    "_to_base": ("any",),
    "_update": ("any",),
    "_from_base": ("any",),
}


NOT_YET = {}     # (kind -> function names whose definition obligations are not generated; none at present)


def update_validates_before_store(prover, base, s, flag):
    """C11 inside `_update` (the entry point of reset / update / every load): on every path, a value stored into the
    receiver's container (item assignment; append / extend go through the public methods, which validate themselves)
    was validated by the receiver EARLIER on that path - unless the caller passed `_validate=True` ("already validated",
    which is the callee-requires clause C11:prevalidated-data-admissible at the call sites)."""
    def hook(x, res, ctx):
        validated = [(i, e) for i, e in enumerate(x.events) if e[0] == "validated" and e[1] == s.self_.addr]
        for i, e in enumerate(x.events):
            if e[0] != "cell-write" or e[1] != s.self_.addr or e[2] not in api.STORE_ARG:
                continue
            vals = e[6] if len(e) > 6 else ()
            idx = api.STORE_ARG[e[2]]
            if idx >= len(vals):
                continue
            v = vals[idx]
            src = v.meta.get("fb_src") if isinstance(v, Z) else None
            if src is None:
                src = to_val(v)
            ok = any(j < i and api.contains_term(ev[2], src) for j, ev in validated)
            name = f"C11/def:{base}/protocol:stored-value-validated-or-prevalidated"
            if ok:
                prover.structural(name, True, x, dict(ctx, op=e[2]))
            else:
                # not validated on this path: only admissible when the caller vouched for the data
                prover.goal(name, x, api.as_bool(flag), info=dict(ctx, op=e[2]))
    return hook


def run_task(eng, prover, task, out):
    pid = task["props"][0]
    P = eng.P
    if "_from_base" in task["functions"]:
        check_lifted_map(eng, prover, pid, task["cname"], task["role"], task["rootkind"], out)
    jobs = [(f, False) for f in task["functions"]]
    if eng.R["classes"][task["cname"]]["isa"].get("BufferedCollection"):
        # the buffered cases of _load / _save (C05): a second run from a state in buffered mode
        jobs += [(f, True) for f in task["functions"] if f in ("_load", "_save")]
    for (fname, bufmode) in jobs:
        s = scn.make_scene(eng, task["cname"], task["role"], task["rootkind"])
        st = s.st
        fam = scn.family(eng, s.cls)
        api.type_facts(eng, st, set([s.cls, s.rootcls, fam[0], fam[1]]))
        if DEF_FUNCS.get(fname, ("any",))[0] == "root" and task["role"] != "root":
            continue
        if fname in NOT_YET.get(scn.kind_of_class(eng, P.classes[task["cname"]]), ()):
            continue
        r = P.lookup_method(s.cls, fname)
        if r is None or isinstance(r, tuple):
            continue
        fi = r
        contract = eng.contracts.get(fi.qualname)
        if contract is None:
            out["unsupported"].append({"instance": f"{task['cname']}.{fname}/{task['role']}", "reason": "no contract"})
            continue
        role = task["role"] if task["role"] == "root" else f"nested-in-{task['rootkind']}"
        base = f"{task['cname']}.{fname}{'[buffered]' if bufmode else ''}@{fi.qualname}/{role}"
        args = [s.self_]
        if fname == "_validate":
            t = smt.fresh("arg_data")
            st.assume(z3.Not(smt.is_VRef(t)))
            args.append(Z(t, None, {"plain": True}))
        if fname == "_update":
            t = smt.fresh("arg_data")
            st.assume(z3.Not(smt.is_VRef(t)))
            args.append(Z(t, None, {"plain": True}))
            args.append(Z(smt.VBool(smt.fresh("arg_validated", smt.BoolS)), None, {"plain": True}))
        kwargs = {}
        if fname == "_from_base":
            from pyvc.values import ClassV
            t = smt.fresh("arg_data")
            st.assume(z3.Not(smt.is_VRef(t)))
            args = [ClassV(s.cls), Z(t, None, {"plain": True})]
            kwargs = {"parent": s.self_}
        assume = []
        if s.buffered and fname in ("_load", "_save") and not bufmode:
            # unbuffered mode
            for a, rec in st.objs.items():
                if rec.tag.startswith("buffered:") or rec.tag.startswith("bufctx:"):
                    assume.append(as_int(rec.fields["_count"]) == 0)
        if bufmode:
            from props import buffers as PB
            PB.buffer_inv(eng, s, st, s.root)
            st.ghost["skolem_files"] = [s.other_file]
            rrec = st.rec(s.root)
            bobj = as_int(st.rec(rrec.fields["buffered"]).fields["_count"])
            bctx = as_int(st.rec(st.statics[(rrec.cls.name, "_buffer_context")]).fields["_count"])
            assume.append(z3.Or(bobj > 0, bctx > 0))
        hook = None
        if fname == "_update" and pid == "C11":
            hook = update_validates_before_store(prover, base, s, args[2])
        eng.iteration_hooks = [lambda y, hook=hook: hook(y, None, {"path": "loop-iteration"})] if hook else []
        try:
            n = verify_contract(eng, prover, pid, base, fi, contract, st, args, kwargs, assume=assume, path_hook=hook)
            out["paths"] += n
            out["functions"][fi.qualname] = fi.sha()
        except Unsupported as e:
            out["unsupported"].append({"instance": f"{task['cname']}.{fname}/{task['role']}", "reason": str(e)})
        finally:
            eng.iteration_hooks = []
    for q in list(eng.inlined) + list(eng.used_contracts):
        f = api.find_function(eng, q)
        if f is not None:
            out["functions"].setdefault(f.qualname, f.sha())
