"""C10 (b) lock order and (c) re-pointing; buffered-mode instances of the root clear()/reset() (whose save goes to
the buffer)."""
import z3

from pyvc import smt
from pyvc.smt import Val, IntS
from pyvc.values import Z, Bv, Const, ObjV, Raise, Unsupported, to_val, as_int
from pyvc import scene as scn
from props import api

RANK = (("_BUFFER_LOCK", 0), ("._locks[", 1), ("_cls_lock", 2))


def rank_of(name):
    for frag, r in RANK:
        if frag in name:
            return r
    return None


def check_lock_order(eng, prover, name, x, ctx):
    """Static order  BUFFER_LOCK(cls) < file lock(cls, filename) < cls_lock(cls): whenever a lock is acquired every
    lock already held is lower in the order, or it is the same lock (re-entrant).  With [M-ORDER] this excludes
    deadlock."""
    held = []
    ok = True
    detail = None
    for e in x.events:
        if e[0] == "lock-enter":
            r = rank_of(e[2])
            for (r2, lid2, nm2) in held:
                if r2 is None or r is None:
                    continue
                if r2 > r or (r2 == r and not lid2.eq(e[1])):
                    same = eng.solver.prove(list(x.pc), lid2 == e[1])[0] == "unsat"
                    if not same:
                        ok = False
                        detail = f"acquires {e[2]} while holding {nm2}"
            held.append((r, e[1], e[2]))
        elif e[0] == "lock-exit":
            for i in range(len(held) - 1, -1, -1):
                if held[i][1].eq(e[1]):
                    del held[i]
                    break
    prover.structural(name, ok, x, dict(ctx, detail=detail))


def run_task(eng, prover, task, out):
    try:
        _run_task(eng, prover, task, out)
    except Unsupported as e:
        # a construct outside the executed subset is never a verdict
        out["unsupported"].append({"instance": f"{task['cname']}.{task['what']}/root", "reason": str(e)})


def _run_task(eng, prover, task, out):
    what = task["what"]
    cname = task["cname"]
    P = eng.P
    if what == "buffered-root-mutators":
        for meth in ("clear", "reset"):
            s = scn.make_scene(eng, cname, "root", None)
            st = s.st
            st.assume(s.susp0 == 0)
            fam = scn.family(eng, s.cls)
            api.type_facts(eng, st, set([s.cls, fam[0], fam[1]]))
            # buffered mode: some buffered context of this object / class is active
            rec = st.rec(s.self_)
            bobj = as_int(st.rec(rec.fields["buffered"]).fields["_count"])
            bctx = as_int(st.rec(st.statics[(cname, "_buffer_context")]).fields["_count"])
            st.assume(z3.Or(bobj > 0, bctx > 0))
            from props.buffers import Buf
            b = Buf(eng, st, cname)
            fn = to_val(rec.fields["_filename"])
            d = Val.addr(rec.fields["_data"].term)
            st.assume(b.ba != b.ra, d != b.ba, d != b.ra, z3.Implies(b.has(fn), z3.And(b.wellformed(fn), b.entry_addr(fn) != d)))
            fi = P.lookup_method(s.cls, meth)
            args = [s.self_]
            if meth == "reset":
                t = smt.fresh("arg_data")
                st.assume(z3.Not(smt.is_VRef(t)))
                args.append(Z(t, None, {"plain": True}))
            base = f"{cname}.{meth}@{fi.qualname}/root+buffered"
            # the save goes to the buffer: execute the real _save / _save_to_buffer bodies
            saved = {}
            for q in [q for q in eng.contracts if q.endswith("._save")]:
                saved[q] = eng.contracts.pop(q)
            try:
                outs = eng.run_function(st, fi, args)
            finally:
                eng.contracts.update(saved)
            k = 0
            pre_depth = st.g["Depth"]
            for (x, res) in outs:
                k += 1
                check_lock_order(eng, prover, f"C10/{base}/lock-order", x, {"path": k})
            out["paths"] += k
            out["functions"][fi.qualname] = fi.sha()
    elif what == "repoint":
        # (c) filename.setter: every live root keeps finding its lock
        s = scn.make_scene(eng, cname, "root", None, second="same")
        st = s.st
        st.assume(s.susp0 == 0)
        fam = scn.family(eng, s.cls)
        api.type_facts(eng, st, set([s.cls, fam[0], fam[1]]))
        pr = P.lookup_method(s.cls, "filename")
        setter = pr[1]["set"]
        new = smt.fresh("new_filename")
        st.assume(smt.is_VStr(new))
        other = smt.fresh("some_other_bound_file")      # Skolem: any file some other live object is bound to
        dom = "LockDom:" + cname
        st.assume(z3.Select(st.g[dom], other))
        pre = st.copy()
        oldfn = to_val(st.rec(s.self_).fields["_filename"])
        base = f"{cname}.filename.setter@{setter.qualname}/root"
        k = 0
        for (x, res) in eng.run_function(st, setter, [s.self_, Z(new, "str", {"plain": True})]):
            k += 1
            ctx = {"path": k}
            if eng.mode.get("threads"):
                prover.goal(f"C10/{base}/locks:old-file-keeps-its-lock", x, z3.Select(x.g[dom], oldfn), info=ctx)
                prover.goal(f"C10/{base}/locks:other-files-keep-their-locks", x, z3.Select(x.g[dom], other), info=ctx)
                if not isinstance(res, Raise):
                    prover.goal(f"C10/{base}/locks:new-file-has-a-lock", x, z3.Select(x.g[dom], new), info=ctx)
            prover.goal(f"C10/{base}/balance:locks", x, x.g["Depth"] == pre.g["Depth"], info=ctx)
            check_lock_order(eng, prover, f"C10/{base}/lock-order", x, ctx)
            if not isinstance(res, Raise):
                prover.goal(f"C10/{base}/ensures:re-pointed", x, to_val(x.rec(s.self_).fields["_filename"]) == new, info=ctx)
            if eng.mode.get("threads"):
                # the lock identity of a collection (its file name) changes only while the lock of its CURRENT file is
                # held: an operation in flight on another thread holds that lock from __enter__ to __exit__, so it
                # acquires and releases the same lock
                lid = smt.F("lockid", IntS, Val, IntS)(z3.IntVal(smt.tid_of(cname)), oldfn)
                held = []
                for i, e in enumerate(x.events):
                    if e[0] == "field-store" and e[1] == s.self_.addr and e[2] == "_filename" and x.evdepth[i] is not None:
                        held.append(z3.Select(x.evdepth[i], lid) >= 1)
                prover.goal(f"C10/{base}/guarded:file-name-changes-under-the-old-files-lock", x, smt.and_(held), info=ctx)
        out["paths"] += k
        out["functions"][setter.qualname] = setter.sha()
    elif what == "interference":
        # balance of the load-and-save context under interference: between __enter__ and __exit__ other threads may
        # change every piece of shared state that is not protected by the locks this thread holds (the buffered-mode
        # counters and the shared suspend counter); the locks released must still be the locks acquired
        from pyvc.values import Iv
        s = scn.make_scene(eng, cname, "root", None)
        st = s.st
        st.assume(s.susp0 == 0)
        fam = scn.family(eng, s.cls)
        api.type_facts(eng, st, set([s.cls, fam[0], fam[1]]))
        rec = st.rec(s.self_)
        ls = rec.fields["_load_and_save"]
        lcls = st.rec(ls).cls
        enter = P.lookup_method(lcls, "__enter__")
        exit_ = P.lookup_method(lcls, "__exit__")
        base = f"{cname}._load_and_save@{lcls.name}/root"
        pre = st.copy()
        k = 0
        for (a, r1) in eng.run_function(st, enter, [ls]):
            k += 1
            if isinstance(r1, Raise):
                prover.goal(f"C10/{base}/interference:failed-enter-holds-nothing", a, a.g["Depth"] == pre.g["Depth"],
                            info={"path": k})
                continue
            b = a.copy()
            counters = []
            if "buffered" in rec.fields:
                counters.append(b.rec(rec.fields["buffered"]))
                counters.append(b.rec(b.statics[(cname, "_buffer_context")]))
            counters.append(b.rec(rec.fields["_suspend_sync"]))
            for cr in counters:
                v = smt.fresh("count_changed_by_another_thread", IntS)
                b.assume(v >= 0)
                cr.fields["_count"] = Iv(v)
            for (c, r2) in eng.run_function(b, exit_, [ls, Const(None), Const(None), Const(None)]):
                k += 1
                prover.goal(f"C10/{base}/interference:exit-releases-what-enter-acquired", c,
                            c.g["Depth"] == pre.g["Depth"], info={"path": k})
        out["paths"] += k
        out["functions"][enter.qualname] = enter.sha()
        out["functions"][exit_.qualname] = exit_.sha()
    for q in list(eng.inlined) + list(eng.used_contracts):
        f = api.find_function(eng, q)
        if f is not None:
            out["functions"].setdefault(f.qualname, f.sha())
