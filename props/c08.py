"""C08 — crash atomicity of saves.

`throughout` clause on JSONCollection._save_to_resource (DESIGN.md 6 C08): with
    atomic := self._write_concern or type(self)._threading_support_is_active
after EVERY file primitive of every path (open-truncate, every flushed prefix of a buffered write, close,
os.replace) the target file holds either its complete previous bytes or the complete new blob.
Second clause, any mode: content that cannot be serialised raises before the first file effect.
Third: the functions above it (_save, _LoadAndSave.__exit__, and - buffer tier - _flush, _flush_buffer)
perform no file primitive of their own, so they inherit the clause from the callee's contract."""
import z3

from pyvc import smt
from pyvc.values import Raise, Unsupported, to_val
from pyvc import scene as scn
from pyvc.stdlib_spec import encode
from props import api


def run_task(eng, prover, task, out):
    P = eng.P
    cname = task["cname"]
    s = scn.make_scene(eng, cname, "root", None)
    st = s.st
    fam = scn.family(eng, s.cls)
    api.type_facts(eng, st, set([s.cls, fam[0], fam[1]]))
    fi = P.lookup_method(s.cls, "_save_to_resource")
    base = f"{cname}._save_to_resource@{fi.qualname}/root"
    eng.prover, eng.goal_prefix = prover, f"C08/{base}"
    pre = st.copy()
    rec = st.rec(s.self_)
    target = to_val(rec.fields["_filename"])
    wc = rec.fields["_write_concern"].term
    atomic = z3.Or(wc, z3.BoolVal(bool(eng.mode.get("threads"))))
    old = pre.sel("FS", target)
    new = encode(pre.sel("View", z3.IntVal(s.self_.addr)))
    outs = eng.run_function(st, fi, [s.self_])
    n = 0
    points = 0
    for (x, res) in outs:
        n += 1
        ctx = {"path": n}
        fs_events = [e for e in x.events if e[0] == "fs"]
        for k, e in enumerate(fs_events):
            points += 1
            G = e[4]
            cur = z3.Select(G["FS"], target)
            prover.goal(f"C08/{base}/throughout:target-old-or-new", x,
                        z3.Implies(atomic, z3.Or(cur == old, cur == new)),
                        info=dict(ctx, primitive=e[1], point=k))
        unser = any(e[0] == "io-fault" and e[1] == "unserialisable" for e in x.events)
        if unser:
            prover.structural(f"C08/{base}/unserialisable:no-file-effect", not fs_events, x, ctx)
            prover.goal(f"C08/{base}/unserialisable:fs-unchanged", x, x.g["FS"] == pre.g["FS"], info=ctx)
        if not isinstance(res, Raise):
            prover.goal(f"C08/{base}/ensures:target-holds-new-blob", x, x.sel("FS", target) == new, info=ctx)
            # ("a new collection object opens it normally": the new blob is encode(view), a complete JSON document
            #  by [E-JSON]; the old content is one by Inv.res)
    out["paths"] += n
    out["functions"][fi.qualname] = fi.sha()
    out.setdefault("crash_points", 0)
    out["crash_points"] += points
    # callers perform no file primitive of their own
    for fname in ("_save",):
        for role, rk in (("root", None), ("nested", "dict")):
            s2 = scn.make_scene(eng, cname, role, rk)
            f2 = P.lookup_method(s2.cls, fname)
            if s2.buffered:      # unbuffered mode here; the buffered save path is covered by C05
                from pyvc.values import as_int
                for a_, rec_ in s2.st.objs.items():
                    if rec_.tag.startswith("buffered:") or rec_.tag.startswith("bufctx:"):
                        s2.st.assume(as_int(rec_.fields["_count"]) == 0)
            outs2 = eng.run_function(s2.st, f2, [s2.self_])
            for (y, r2) in outs2:
                prover.structural(f"C08/{cname}.{fname}@{f2.qualname}/{role}/no-own-file-primitive",
                                  not any(e[0] == "fs" for e in y.events), y)
            out["functions"][f2.qualname] = f2.sha()
    for q in list(eng.inlined) + list(eng.used_contracts):
        f = api.find_function(eng, q)
        if f is not None:
            out["functions"].setdefault(f.qualname, f.sha())
