"""Which obligations decide which property: property id -> task plan."""
import os
import sys

from pyvc import setup_engine

JSON_FAMILIES = ["JSON", "JSONAttr", "BufferedJSON", "BufferedJSONAttr", "MemoryBufferedJSON", "MemoryBufferedJSONAttr"]

API_PROPS = {
    "C01": dict(methods="mutator", title="write-through"),
    "C02": dict(methods="read", title="read-through"),
    "C03": dict(methods="all", title="refinement of built-in dict/list"),
    "C04": dict(methods="mutator", title="writes apply to the current content"),
    "C10": dict(methods="all", title="lock balance"),
    "C17": dict(methods="read", title="reading never writes"),
}


def concrete_classes(R):
    return sorted(R["classes"])


def api_tasks(pid, tier, repo, seed, R):
    from props import api
    tasks = []
    for cname in concrete_classes(R):
        info = R["classes"][cname]
        if API_PROPS[pid].get("json_only") and not info["supports_threading"]:
            continue
        kind = info["kind"]
        table = api.api_of(kind)
        want = API_PROPS[pid]["methods"]
        meths = [m for m, sp in table.items() if (want == "all" or sp["kind"] == want) and not sp.get("attr")]
        modes = [True] if info["supports_threading"] else [False]
        if tier == "thorough" and info["supports_threading"]:
            modes = [True, False]
        for threads in modes:
            for role, rootkind in (("root", None), ("nested", "dict"), ("nested", "list")):
                tasks.append(dict(kind="api", repo=repo, seed=seed, cname=cname, role=role, rootkind=rootkind,
                                  methods=meths, props=[pid], threads=threads,
                                  label=f"{pid}:{cname}:{role}{'-in-' + rootkind if rootkind else ''}:threads={threads}"))
    return tasks


EXPLAIN = {
    "C09": "Lock DISCIPLINE, proved per function for all inputs: for every public mutator x JSON class x receiver role "
           "(threading active) every access the call makes to the shared state of its tree (containers, the shared suspend "
           "counter, the resource; callee footprints by contract) happens while the one lock of the root's file is held, and "
           "that lock is not released between the first and the last access. The conclusion 'linearizable' additionally "
           "rests on the monitor / two-phase-locking argument [M-2PL], which is not machine-checked, and on C01-C04 for the "
           "sequential behaviour of each operation; the schedule space itself is never enumerated.",
    "C14": "Same lock discipline extended to the read APIs: a read's load WRITES the shared tree and raises the shared "
           "suspend counter, so it needs the file lock from load to read. Every read API violates it on the pinned tree by "
           "design ('reads happen freely'); each is a KNOWN FINDING with a directed schedule replayed on the real code "
           "(replay/witness/d16.py). [M-2PL] as for C09.",
}


QUIESCENT_FOR = ("C01", "C02", "C04", "C10")      # proofs that start from a quiescent state (suspend counter 0, no lock held)


def plan(pid, tier, repo, seed):
    R = setup_engine.reflect(repo)
    if pid in API_PROPS:
        tasks = api_tasks(pid, tier, repo, seed, R)
        if pid in QUIESCENT_FOR:
            tasks.append(dict(kind="quiescent", repo=repo, seed=seed, classes=concrete_classes(R), props=[pid], threads=True,
                              label=f"{pid}:quiescent:yield-points"))
        extra = EXTRA.get(pid)
        if extra:
            tasks.extend(extra(pid, tier, repo, seed, R))
        return dict(tasks=tasks, level=LEVEL.get(pid, "proof"), explanation=EXPLAIN.get(pid, ""))
    if pid in EXTRA:
        return dict(tasks=EXTRA[pid](pid, tier, repo, seed, R), level=LEVEL.get(pid, "proof"), explanation=EXPLAIN.get(pid, ""))
    raise KeyError(f"no check is registered for property {pid}")


DEFS_FOR = {
    "C01": ["_save", "_save_to_resource"],
    "C02": ["_load", "_load_from_resource", "_update"],
    "C03": ["_load", "_save"],
    "C04": ["_load", "_save", "_load_from_resource", "_save_to_resource", "_update"],
    "C10": ["_load", "_save"],
    "C17": ["_load", "_load_from_resource"],
}


def def_tasks(pid, tier, repo, seed, R, functions=None):
    tasks = []
    functions = functions or DEFS_FOR[pid]
    for cname in concrete_classes(R):
        info = R["classes"][cname]
        modes = [True] if info["supports_threading"] else [False]
        if tier == "thorough" and info["supports_threading"]:
            modes = [True, False]
        for threads in modes:
            for role, rootkind in (("root", None), ("nested", "dict"), ("nested", "list")):
                tasks.append(dict(kind="defs", repo=repo, seed=seed, cname=cname, role=role, rootkind=rootkind,
                                  functions=functions, props=[pid], threads=threads,
                                  label=f"{pid}:def:{cname}:{role}{'-in-' + rootkind if rootkind else ''}:threads={threads}"))
    return tasks


def value_tasks(pid, tier, repo, seed, R):
    fns = ["require_string_key", "json_format_validator", "no_dot_in_key", "json_attr_dict_validator"]
    tasks = [dict(kind="validators", repo=repo, seed=seed, what="validators", functions=[f], props=[pid], threads=True,
                  label=f"{pid}:validator:{f}") for f in fns]
    tasks.append(dict(kind="validators", repo=repo, seed=seed, what="classes", classes=concrete_classes(R), props=[pid],
                      threads=True, label=f"{pid}:classes"))
    if pid == "C12":
        tasks.append(dict(kind="validators", repo=repo, seed=seed, what="lemma", props=[pid], threads=True,
                          label=f"{pid}:lemma"))
    return tasks


def c12_tasks(pid, tier, repo, seed, R):
    # conversion in and out, the in-place merge every load / update() / reset() goes through, and the two resource
    # functions (what is saved is exactly the view; what is loaded is exactly the resource content)
    tasks = value_tasks(pid, tier, repo, seed, R) + def_tasks(pid, tier, repo, seed, R, ["_from_base", "_to_base", "_update"])
    for cname in concrete_classes(R):
        info = R["classes"][cname]
        for threads in ((True, False) if info["supports_threading"] else (False,)):
            tasks.append(dict(kind="defs", repo=repo, seed=seed, cname=cname, role="root", rootkind=None,
                              functions=["_save_to_resource", "_load_from_resource"], props=[pid], threads=threads,
                              label=f"{pid}:def:{cname}:resource:threads={threads}"))
    cl = concrete_classes(R)
    for c in cl:
        tasks.append(dict(kind="c12", repo=repo, seed=seed, cname=c, props=[pid], threads=True, label=f"C12:default:{c}"))
    pick = cl if tier == "thorough" else [c for c in cl if c in ("JSONDict", "JSONList", "MemoryBufferedJSONAttrDict",
                                                                 "BufferedJSONList", "RedisDict", "MongoDBList", "ZarrDict")]
    sweeps = [(f"{c}:round-trip", "replay/roundtrip_replay.py", ["search", c],
               "33 JSON values (boundary scalars, 2**70, unicode/escapes, empty keys/containers, bool/int/float "
               "look-alikes, nestings) x every mutating entry point incl. overwriting a look-alike, an existing "
               "container and longer content; read back by a fresh object; equality and leaf types") for c in pick]
    sweeps += [(f"{c}:round-trip:nothreads", "replay/roundtrip_replay.py", ["search", c, "nothreads"],
                "the same sweep with the class's thread-safety layer switched off (plain in-place writes)")
               for c in pick if R["classes"][c]["supports_threading"] and (tier == "thorough" or c in ("JSONDict", "BufferedJSONList"))]
    for sw in sweeps:
        tasks.append(dict(kind="bounded", repo=repo, seed=seed, props=[pid], sweeps=[sw], threads=True,
                          label=f"{pid}:bounded:round-trip:{sw[0]}"))
    return tasks


def c11_tasks(pid, tier, repo, seed, R):
    return value_tasks(pid, tier, repo, seed, R) + def_tasks(pid, tier, repo, seed, R, ["_validate", "_update"])


def c08_tasks(pid, tier, repo, seed, R):
    tasks = []
    for cname in concrete_classes(R):
        if "JSON" not in cname:
            continue
        for threads in (True, False):
            tasks.append(dict(kind="c08", repo=repo, seed=seed, cname=cname, props=[pid], threads=threads,
                              label=f"C08:{cname}:threads={threads}"))
    return tasks


def c19_tasks(pid, tier, repo, seed, R):
    from props import c19
    tasks = [dict(kind="c19", repo=repo, seed=seed, what="scan", props=[pid], threads=True, label="C19:scan")]
    for r in c19.RESOLVERS:
        for numpy in (False, True):
            tasks.append(dict(kind="c19", repo=repo, seed=seed, what="resolver", resolver=r, props=[pid], threads=True,
                              numpy=numpy, label=f"C19:{r[1]}:numpy={numpy}"))
    return tasks


def c16_tasks(pid, tier, repo, seed, R):
    tasks = def_tasks(pid, tier, repo, seed, R, ["_to_base", "_from_base"])
    cl = concrete_classes(R)
    pick = cl if tier == "thorough" else [c for c in cl if c in ("JSONDict", "JSONList", "MemoryBufferedJSONAttrDict", "BufferedJSONList")]
    # both _update bodies under the C16 provenance obligations: every class in the thorough tier, one class per family and
    # container kind in the quick tier (the two bodies are shared by all classes; the per-class difference is the family)
    upd = [t for t in def_tasks(pid, tier, repo, seed, R, ["_update"]) if t["cname"] in pick]
    for t in upd:
        t["label"] = t["label"].replace(":def:", ":def-update:")
    tasks += upd
    sweeps = [(f"{c}:aliasing", "replay/c16_replay.py", ["search", c],
               "all container-taking/returning operations x 6 nested values; every container reachable from the "
               "argument / result mutated afterwards") for c in pick]
    tasks.append(dict(kind="bounded", repo=repo, seed=seed, props=[pid], sweeps=sweeps, threads=True, label=f"{pid}:bounded:aliasing"))
    return tasks


def c18_tasks(pid, tier, repo, seed, R):
    from props import api
    tasks = [dict(kind="c18", repo=repo, seed=seed, what="table", props=[pid], threads=True, label="C18:table")]
    attr_dicts = [c for c in concrete_classes(R) if R["classes"][c]["isa"]["AttrDict"]]
    for c in attr_dicts:
        tasks.append(dict(kind="c18", repo=repo, seed=seed, what="protected", cname=c, props=[pid], threads=True,
                          label=f"C18:protected:{c}"))
        for role, rk in (("root", None), ("nested", "dict"), ("nested", "list")):
            tasks.append(dict(kind="api", repo=repo, seed=seed, cname=c, role=role, rootkind=rk,
                              methods=["__setattr__", "__delattr__", "__getattr__"], props=["C18", "C03", "C01", "C02", "C04"],
                              rename_to="C18", threads=True, label=f"C18:attr:{c}:{role}{rk or ''}"))
    # (c) internal attribute stores + family of created nodes: every public method and the constructors
    for c in concrete_classes(R):
        if "Attr" not in c:
            continue
        kind = R["classes"][c]["kind"]
        meths = list(api.api_of(kind))
        meths = [m for m in meths if not api.api_of(kind)[m].get("attr")]
        for role, rk in (("root", None), ("nested", "dict")):
            tasks.append(dict(kind="api", repo=repo, seed=seed, cname=c, role=role, rootkind=rk, methods=meths,
                              props=["C18"], threads=True, label=f"C18:internal:{c}:{role}"))
    tasks += def_tasks(pid, tier, repo, seed, R, ["_from_base"])
    # the shared-memory _flush re-creates an object's own data: the store-site shape obligation (Inv.node) on its paths
    for c in concrete_classes(R):
        if R["classes"][c]["isa"].get("SharedMemoryFileBufferedCollection"):
            tasks.append(dict(kind="buffers", repo=repo, seed=seed, what="flush", cname=c, props=[pid], threads=True,
                              label=f"{pid}:buffer:{c}:flush"))
    return tasks


def buffer_tasks(pid, tier, repo, seed, R, whats=("flush", "init", "save", "load", "contexts")):
    tasks = []
    for c in concrete_classes(R):
        if not R["classes"][c]["isa"]["BufferedCollection"]:
            continue
        for w in whats:
            tasks.append(dict(kind="buffers", repo=repo, seed=seed, what=w, cname=c, props=[pid], threads=True,
                              label=f"{pid}:buffer:{c}:{w}"))
    cl = [c for c in concrete_classes(R) if R["classes"][c]["isa"]["BufferedCollection"]]
    pick = cl if tier == "thorough" else [c for c in cl if c in ("BufferedJSONDict", "MemoryBufferedJSONList")]
    sweeps = [(f"{c}:buffered-histories", "replay/buffer_replay.py", ["search", c] + ([] if tier == "thorough" else ["4000"]),
               "all histories of <= 3 buffered operations over 2 objects on 2 files x context nestings x capacities "
               "{large, 1, 0} x one outside write") for c in pick]
    for sw in sweeps:       # one task per class: the sweeps run in parallel
        tasks.append(dict(kind="bounded", repo=repo, seed=seed, props=[pid], sweeps=[sw], threads=True,
                          label=f"{pid}:bounded:buffer-histories:{sw[0].split(':')[0]}", timeout=2400))
    return tasks


def c05_tasks(pid, tier, repo, seed, R):
    """C05 = the buffer functions + TRANSPARENCY: every public method of the 8 buffered classes, run from a state in
    buffered mode, discharges the C01 / C02 / C03 / C04 / C17 obligations with the buffer's logical content L(f) in
    the place of the resource (the buffered cases of the _load / _save contracts, proved against the real bodies)."""
    from props import api
    tasks = buffer_tasks(pid, tier, repo, seed, R)
    for c in concrete_classes(R):
        info = R["classes"][c]
        if not info["isa"]["BufferedCollection"]:
            continue
        kind = info["kind"]
        # (Sequence.index re-loads per element: its loop invariant is stated for the unbuffered store only)
        meths = [m for m, sp in api.api_of(kind).items() if not sp.get("attr") and m not in ("index", "index3", "index2")]
        roles = (("root", None), ("nested", "dict"), ("nested", "list"))
        for role, rk in roles:
            tasks.append(dict(kind="api", repo=repo, seed=seed, cname=c, role=role, rootkind=rk, methods=meths,
                              props=["C01", "C02", "C03", "C04", "C17"], rename_to="C05", buffered=True, threads=True,
                              label=f"C05:transparency:{c}:{role}{'-in-' + rk if rk else ''}"))
        tasks += [dict(kind="defs", repo=repo, seed=seed, cname=c, role=role, rootkind=rk, functions=["_load", "_save"],
                       props=[pid], threads=True, label=f"C05:defs:{c}:{role}{'-in-' + rk if rk else ''}")
                  for role, rk in roles]
    return tasks


def c17_tasks(pid, tier, repo, seed, R):
    return def_tasks(pid, tier, repo, seed, R) + buffer_tasks(pid, tier, repo, seed, R, ("flush", "init", "load"))


def c08_all(pid, tier, repo, seed, R):
    return c08_tasks(pid, tier, repo, seed, R) + [t for t in buffer_tasks(pid, tier, repo, seed, R, ("flush",)) if t["kind"] == "buffers"]


API_PROPS["C09"] = dict(methods="mutator", title="lock discipline of mutators", json_only=True)
API_PROPS["C14"] = dict(methods="all", title="lock discipline of reads and writes", json_only=True)
API_PROPS["C16"] = dict(methods="all", title="values are copied in and out")
API_PROPS["C11"] = dict(methods="mutator", title="forbidden data never gets in")
def c02_tasks(pid, tier, repo, seed, R):
    tasks = def_tasks(pid, tier, repo, seed, R)
    # SyncedList._update / SyncedDict._update are proved against their contract (loop invariants in contracts/tree.py).
    # Thorough tier: a CPython differential sweep of the same functions as a cross-check of the contract's reading of
    # Python (labelled bounded, never counted as proved).
    if tier == "thorough":
        lists = [c for c in concrete_classes(R) if R["classes"][c]["kind"] == "list"]
        sweeps = [(f"{c}._update@SyncedList._update", "replay/update_replay.py", ["search", c],
                   "cross-check: all ordered pairs of 20 documents (value->null/scalar/other kind/same kind, "
                   "shorter/longer lists); every retained child handle") for c in lists]
        tasks.append(dict(kind="bounded", repo=repo, seed=seed, props=[pid], sweeps=sweeps, threads=True,
                          label=f"{pid}:bounded:list-update-crosscheck"))
    tasks.append(dict(kind="validators", repo=repo, seed=seed, what="lemma", props=[pid], threads=True, label=f"{pid}:lemma"))
    return tasks


def c10_tasks(pid, tier, repo, seed, R):
    tasks = def_tasks(pid, tier, repo, seed, R)
    for c in concrete_classes(R):
        info = R["classes"][c]
        if info["isa"]["BufferedCollection"]:
            tasks.append(dict(kind="locks", repo=repo, seed=seed, what="buffered-root-mutators", cname=c, props=[pid],
                              threads=True, label=f"C10:buffered-root:{c}"))
        if info["supports_threading"]:
            for threads in ((True, False) if tier == "thorough" else (True,)):
                tasks.append(dict(kind="locks", repo=repo, seed=seed, what="repoint", cname=c, props=[pid], threads=threads,
                                  label=f"C10:repoint:{c}:threads={threads}"))
            tasks.append(dict(kind="locks", repo=repo, seed=seed, what="interference", cname=c, props=[pid], threads=True,
                              label=f"C10:interference:{c}"))
    return tasks


def c03_tasks(pid, tier, repo, seed, R):
    import json as _json
    tasks = def_tasks(pid, tier, repo, seed, R)
    # inherited Sequence mixins: __contains__, index(value) and count(value) are PROVED (loop invariants in contracts/tree.py);
    # the bounded differential sweep against list stays as the stand-in for index with start / stop (labelled bounded,
    # never counted as proved) and as a CPython cross-check of the proved ones
    lists = [c for c in concrete_classes(R) if R["classes"][c]["kind"] == "list"]
    pick = lists if tier == "thorough" else [c for c in lists if c in ("JSONList", "MemoryBufferedJSONAttrList", "RedisList")]
    sweeps = [(f"{c}.index/count/__contains__@stdlib:Sequence", "replay/harness.py",
               ["sweep", _json.dumps({"class": c, "property": "C03", "methods": ["index", "count", "__contains__"],
                                      "roles": ["root", "nested-in-dict"]})],
               "4 list documents x value pool of replay/harness.py, root and nested receivers") for c in pick]
    tasks.append(dict(kind="bounded", repo=repo, seed=seed, props=[pid], sweeps=sweeps, threads=True, label=f"{pid}:bounded:sequence-mixins"))
    return tasks


EXTRA = {p: def_tasks for p in DEFS_FOR}
EXTRA["C02"] = c02_tasks
EXTRA["C03"] = c03_tasks
EXTRA["C10"] = c10_tasks
EXTRA["C16"] = c16_tasks
EXTRA["C18"] = c18_tasks
EXTRA["C11"] = c11_tasks
EXTRA["C12"] = c12_tasks
EXTRA["C08"] = c08_all
for _p in ("C06", "C07", "C15"):
    EXTRA[_p] = buffer_tasks
EXTRA["C05"] = c05_tasks
EXTRA["C17"] = c17_tasks
EXTRA["C19"] = c19_tasks
LEVEL = {"C09": "other", "C14": "other"}
