"""Bounded stand-ins registered as part of a property's run: a differential sweep of the REAL code under the
test-suite interpreter.  Their obligations are named `<pid>/bounded:...`; they are reported under `bounded` in the
evidence and are NEVER counted as proved obligations (DESIGN.md 7.1)."""
import json
import os
import subprocess

HERE = os.path.dirname(os.path.abspath(__file__))
ROOT = os.path.dirname(HERE)
VENV_PY = os.environ.get("PYVC_PYTHON", "/venv/bin/python")


def run_task(eng, prover, task, out):
    pid = task["props"][0]
    env = dict(os.environ, PYTHONPATH=task["repo"])
    for (label, script, args, bound) in task["sweeps"]:
        name = f"{pid}/bounded:{label}"
        try:
            r = subprocess.run([VENV_PY, os.path.join(ROOT, script)] + args, env=env, capture_output=True, text=True,
                               timeout=task.get("timeout", 1200))
            res = json.loads(r.stdout.strip().splitlines()[-1])
        except Exception as e:      # noqa: BLE001
            out["errors"].append(f"bounded sweep {label} could not run: {type(e).__name__}: {e}")
            continue
        info = {"function": label, "tool": script, "bound": bound, "cases": res.get("cases"), "found": bool(res.get("found"))}
        out.setdefault("bounded", []).append(info)
        if res.get("error"):
            out["errors"].append(f"bounded sweep {label}: {res['error']}")
            continue
        ok = not res.get("found")
        prover.structural(name, ok, None, {"message": res.get("message"), "scenario": res.get("scenario"),
                                           "script": script})
