"""Concrete differential harness: the REAL classes against built-in dict/list and an independent read of the
resource.  Runs under the test-suite interpreter (/venv/bin/python) with PYTHONPATH=<repo tree>.

Used (a) to replay a failed obligation: search a small pool of concrete inputs, guided by the obligation's
class / method / receiver role / clause, for a run on which the real code fails the executable form of the
clause; (b) as the bounded stand-in for instances the deductive engine could not decide (labelled bounded).

  python harness.py search '<json spec>'      -> JSON {found, scenario, message, cases}
  python harness.py run <scenario.json>       -> exit 1 if the scenario fails the clause, 0 otherwise
"""
import copy
import itertools
import json
import os
import shutil
import sys
import tempfile
import threading

HERE = os.path.dirname(os.path.abspath(__file__))
sys.path.insert(0, os.path.join(HERE, "fakes"))

import warnings  # noqa: E402

warnings.simplefilter("ignore")


# ------------------------------------------------------------------------------------------------ resources
class FakeRedis:
    def __init__(self):
        self.d = {}
        self.writes = 0

    def get(self, k):
        return self.d.get(k)

    def set(self, k, v):
        self.writes += 1
        self.d[k] = bytes(v)


class FakeMongoCollection:
    def __init__(self):
        self.docs = []
        self.writes = 0

    def find_one(self, flt):
        for d in self.docs:
            if all(d.get(k) == v for k, v in flt.items()):
                return copy.deepcopy(d)
        return None

    def replace_one(self, flt, doc, upsert=False):
        json.dumps(doc)          # BSON is at least as strict as JSON for the data we use
        self.writes += 1
        for i, d in enumerate(self.docs):
            if all(d.get(k) == v for k, v in flt.items()):
                self.docs[i] = copy.deepcopy(doc)
                return
        if upsert:
            self.docs.append(copy.deepcopy(doc))


class FakeZarrDataset:
    def __init__(self):
        self.v = [None]

    def __getitem__(self, i):
        return copy.deepcopy(self.v[i])

    def __setitem__(self, i, val):
        self.v[i] = json.loads(json.dumps(val))


class FakeZarrGroup:
    def __init__(self):
        self.ds = {}
        self.writes = 0

    def __getitem__(self, name):
        return self.ds[name]

    def require_dataset(self, name, overwrite=False, **kw):
        self.writes += 1
        if overwrite or name not in self.ds:
            self.ds[name] = FakeZarrDataset()
        return self.ds[name]


class Resource:
    """A backing resource + constructor arguments for one concrete class."""
    def __init__(self, cname, tmp):
        self.cname = cname
        self.tmp = tmp
        from synced_collections.backends import collection_json as cj
        if hasattr(cj, cname):
            self.cls = getattr(cj, cname)
            self.kind = "json"
            self.path = os.path.join(tmp, "res.json")
        elif cname.startswith("Redis"):
            from synced_collections.backends import collection_redis as m
            self.cls = getattr(m, cname)
            self.kind = "redis"
            self.client = FakeRedis()
        elif cname.startswith("MongoDB"):
            from synced_collections.backends import collection_mongodb as m
            self.cls = getattr(m, cname)
            self.kind = "mongo"
            self.coll = FakeMongoCollection()
        elif cname.startswith("Zarr"):
            from synced_collections.backends import collection_zarr as m
            self.cls = getattr(m, cname)
            self.kind = "zarr"
            self.group = FakeZarrGroup()
        else:
            raise KeyError(cname)

    def new(self, **kw):
        if self.kind == "json":
            return self.cls(filename=self.path, **kw)
        if self.kind == "redis":
            return self.cls(client=self.client, key="k", **kw)
        if self.kind == "mongo":
            return self.cls(collection=self.coll, uid={"id": "u"}, **kw)
        return self.cls(group=self.group, name="n", **kw)

    ABSENT = object()

    def read(self):
        """Independent read of the resource (not through the library)."""
        if self.kind == "json":
            if not os.path.exists(self.path):
                return self.ABSENT
            with open(self.path, "rb") as f:
                return json.loads(f.read())
        if self.kind == "redis":
            b = self.client.d.get("k")
            return self.ABSENT if b is None else json.loads(b)
        if self.kind == "mongo":
            d = self.coll.find_one({"id": "u"})
            return self.ABSENT if d is None else d["data"]
        try:
            return self.group["n"][0]
        except KeyError:
            return self.ABSENT

    def write(self, content):
        """Out-of-band rewrite of the resource."""
        if self.kind == "json":
            with open(self.path, "w") as f:
                json.dump(content, f)
        elif self.kind == "redis":
            self.client.d["k"] = json.dumps(content).encode()
        elif self.kind == "mongo":
            self.coll.docs = [{"id": "u", "data": copy.deepcopy(content)}]
        else:
            self.group.require_dataset("n", overwrite=True)[0] = content

    def stamp(self):
        if self.kind == "json":
            if not os.path.exists(self.path):
                return None
            st = os.stat(self.path)
            return (st.st_ino, st.st_mtime_ns, st.st_size, open(self.path, "rb").read())
        if self.kind == "redis":
            return (self.client.writes, self.client.d.get("k"))
        if self.kind == "mongo":
            return (self.coll.writes, json.dumps(self.coll.docs, sort_keys=True))
        return (self.group.writes, json.dumps({k: v.v for k, v in self.group.ds.items()}, sort_keys=True))

    def lock_free(self):
        """Can another thread take the collection's (and buffer) lock?  (C10)"""
        locks = []
        c = self.cls
        if getattr(c, "_supports_threading", False) and getattr(c, "_threading_support_is_active", False):
            for lk in c._locks.values():
                locks.append(lk)
            bl = getattr(c, "_BUFFER_LOCK", None)
            if bl is not None and hasattr(bl, "acquire"):
                locks.append(bl)
        res = []

        def w():
            for lk in locks:
                got = lk.acquire(timeout=0.5)
                res.append(got)
                if got:
                    lk.release()
        t = threading.Thread(target=w)
        t.start()
        t.join()
        return all(res)


# ------------------------------------------------------------------------------------------------ oracle
def plainify(x):
    """Plain data of a result (synced nodes -> their plain view; dict views / iterators -> lists)."""
    if hasattr(x, "_to_base") and hasattr(x, "_data"):
        return plainify(x._to_base())
    if isinstance(x, dict):
        return {k: plainify(v) for k, v in x.items()}
    if isinstance(x, (list, tuple)):
        return [plainify(v) for v in x]
    if isinstance(x, (str, int, float, bool, type(None))):
        return x
    try:
        return [plainify(v) for v in list(x)]
    except TypeError:
        return repr(x)


def type_shape(x):
    if isinstance(x, dict):
        return {k: type_shape(v) for k, v in x.items()}
    if isinstance(x, list):
        return [type_shape(v) for v in x]
    return type(x).__name__


def apply_builtin(c, method, args, kwargs):
    """The operation on a built-in dict/list; documented deviations of the synced API applied."""
    if isinstance(c, dict):
        if method == "pop":
            return c.pop(args[0], args[1] if len(args) > 1 else None)
        if method == "reset":
            if not isinstance(args[0], dict):
                raise ValueError("reset")
            c.clear()
            c.update(copy.deepcopy(args[0]))
            return None
        if method == "popitem":
            return c.popitem()
        if method in ("keys", "values", "items", "__iter__"):
            return list(getattr(c, method)())
        if method == "__call__":
            return copy.deepcopy(c)
    else:
        if method == "reset":
            if isinstance(args[0], str) or not isinstance(args[0], (list, tuple)):
                raise ValueError("reset")
            c[:] = copy.deepcopy(list(args[0]))
            return None
        if method == "__iadd__":
            c += copy.deepcopy(list(args[0]))
            return c
        if method in ("__iter__", "__reversed__"):
            return list(getattr(c, method)())
        if method == "__call__":
            return copy.deepcopy(c)
    r = getattr(c, method)(*copy.deepcopy(list(args)), **copy.deepcopy(kwargs))
    if method in ("__eq__", "__ne__", "__lt__", "__le__", "__gt__", "__ge__") and r is NotImplemented:
        # the interpreter falls back to the reflected operation / identity; use the operator itself
        import operator
        return {"__eq__": operator.eq, "__ne__": operator.ne, "__lt__": operator.lt, "__le__": operator.le,
                "__gt__": operator.gt, "__ge__": operator.ge}[method](c, args[0])
    return r


def call_real(obj, method, args, kwargs):
    if method == "__iadd__":
        obj += copy.deepcopy(args[0])
        return obj
    if method in ("__lt__", "__le__", "__gt__", "__ge__", "__eq__", "__ne__"):
        import operator
        a0 = args[0] if hasattr(args[0], "_to_base") else copy.deepcopy(args[0])
        return {"__eq__": operator.eq, "__ne__": operator.ne, "__lt__": operator.lt, "__le__": operator.le,
                "__gt__": operator.gt, "__ge__": operator.ge}[method](obj, a0)
    if method == "__contains__":
        return args[0] in obj
    if method == "__len__":
        return len(obj)
    if method == "__iter__":
        return list(iter(obj))
    if method == "__reversed__":
        return list(reversed(obj))
    if method == "__repr__":
        return repr(obj)
    if method == "__str__":
        return str(obj)
    return getattr(obj, method)(*copy.deepcopy(list(args)), **copy.deepcopy(kwargs))


# ------------------------------------------------------------------------------------------------ pools
DICT_INITS = [{}, {"a": 1}, {"a": {"x": [1, {"y": 2}]}, "b": [1, 2], "c": None}, {"a": True, "b": 1, "c": 1.5, "d": "s"}]
LIST_INITS = [[], [1], [1, [2, {"z": 3}], {"a": 1}, None], [3, 1, 2, 1]]
VALUES = [None, True, 0, 1, 1.5, "", "s", [], [1, [2]], {}, {"k": 1}, {"k": {"j": [1]}}]
KEYS = ["a", "b", "c", "zz", ""]
INDICES = [0, 1, -1, 3, -5, 7, slice(0, 1), slice(None), slice(1, None, 2), slice(5, 9)]
ITERABLES = [[], [1], [[1], {"a": 2}], (1, 2), "ab"]
OTHERS_LIST = [[], [1], [0], [1, [2, {"z": 3}], {"a": 1}, None], [3, 1, 2, 1], [3, 1, 2, 2], [9]]


def arg_pool(kind, method):
    """Concrete argument tuples (args, kwargs) for a public method."""
    V = VALUES
    if kind == "dict":
        return {
            "__setitem__": [((k, v), {}) for k in KEYS for v in V],
            "__delitem__": [((k,), {}) for k in KEYS],
            "pop": [((k,), {}) for k in KEYS] + [((k, d), {}) for k in KEYS[:3] for d in (None, 5, [1])],
            "popitem": [((), {})],
            "clear": [((), {})],
            "update": [((o,), kw) for o in (None, {}, {"a": 2}, {"a": {"x": 1}, "n": [1]}, [("a", 3), ("q", 4)], [])
                       for kw in ({}, {"a": 9}, {"w": [1]})] + [((), {"a": 5})],
            "setdefault": [((k,), {}) for k in KEYS] + [((k, d), {}) for k in KEYS[:3] for d in V],
            "reset": [((d,), {}) for d in DICT_INITS + [{"q": [1]}]] + [((x,), {}) for x in ([1], 5, "s")],
            "__getitem__": [((k,), {}) for k in KEYS],
            "get": [((k,), {}) for k in KEYS] + [((k, 7), {}) for k in KEYS],
            "__contains__": [((k,), {}) for k in KEYS],
            "__eq__": [((o,), {}) for o in DICT_INITS + [1, None, [1]]],
        }.get(method, [((), {})])
    return {
        "__setitem__": [((i, v), {}) for i in INDICES[:6] for v in V] +
                       [((s, it), {}) for s in INDICES[6:] for it in ([], [5], [5, [6]], (7,))],
        "__delitem__": [((i,), {}) for i in INDICES],
        "insert": [((i, v), {}) for i in (0, 1, -1, 9, -9) for v in V],
        "append": [((v,), {}) for v in V],
        "extend": [((it,), {}) for it in ITERABLES],
        "__iadd__": [((it,), {}) for it in ITERABLES],
        "remove": [((v,), {}) for v in (1, 2, None, [2, {"z": 3}], {"a": 1}, 99, "q")],
        "pop": [((), {})] + [((i,), {}) for i in (0, 1, -1, 5, -6)],
        "reverse": [((), {})],
        "clear": [((), {})],
        "reset": [((d,), {}) for d in LIST_INITS + [(1, 2)]] + [((x,), {}) for x in ({"a": 1}, 5, "s")],
        "__getitem__": [((i,), {}) for i in INDICES],
        "__eq__": [((o,), {}) for o in OTHERS_LIST + [1, None, {"a": 1}]],
        "__lt__": [((o,), {}) for o in OTHERS_LIST],
        "__le__": [((o,), {}) for o in OTHERS_LIST],
        "__gt__": [((o,), {}) for o in OTHERS_LIST],
        "__ge__": [((o,), {}) for o in OTHERS_LIST],
        "index": [((v,), {}) for v in (1, 2, None, [2, {"z": 3}], 99)] +
                 [((v, a), {}) for v in (1, 2, None) for a in (0, 1, -1, -9, 5)] +
                 [((v, a, b), {}) for v in (1, 2, None) for a in (0, 1, -2, -9) for b in (0, 1, 2, -1, -9, 9)],
        "count": [((v,), {}) for v in (1, 2, None, [2, {"z": 3}], 99)],
        "__contains__": [((v,), {}) for v in (1, 2, None, [2, {"z": 3}], {"a": 1}, 99)],
    }.get(method, [((), {})])


READS = {"__getitem__", "get", "keys", "values", "items", "__iter__", "__len__", "__contains__", "__call__", "__eq__",
         "__repr__", "__str__", "__reversed__", "__lt__", "__le__", "__gt__", "__ge__", "index", "count"}


# ------------------------------------------------------------------------------------------------ scenarios
def build(spec, init, tmp):
    """-> (resource, root object, receiver, oracle root, oracle receiver)"""
    res = Resource(spec["class"], tmp)
    role = spec["role"]
    kind = "dict" if "Dict" in spec["class"] else "list"
    if role == "root":
        root_content = copy.deepcopy(init)
        rcls = spec["class"]
    else:
        fam_kind = "dict" if role.endswith("dict") else "list"
        rcls = spec["class"].replace("List", "Dict") if fam_kind == "dict" else spec["class"].replace("Dict", "List")
        root_content = {"n": copy.deepcopy(init), "other": 1} if fam_kind == "dict" else [copy.deepcopy(init), 1]
        res = Resource(rcls, tmp)
    root = res.new()
    root.reset(copy.deepcopy(root_content))
    if role == "root":
        recv = root
        o_root = copy.deepcopy(root_content)
        o_recv = o_root
    else:
        recv = root["n"] if isinstance(root_content, dict) else root[0]
        o_root = copy.deepcopy(root_content)
        o_recv = o_root["n"] if isinstance(root_content, dict) else o_root[0]
    return res, root, recv, o_root, o_recv


def run_case(spec, init, args, kwargs, keep=None):
    """Execute one concrete case; return None if the clause holds, else a message."""
    prop = spec["property"]
    method = spec["method"]
    tmp = tempfile.mkdtemp(prefix="pyvc_replay_")
    try:
        res, root, recv, o_root, o_recv = build(spec, init, tmp)
        pre = spec.get("pre")
        if pre == "other-handle":
            # another object on the same resource changes another part of the data (C04)
            other = res.new()
            if isinstance(o_root, dict):
                other["__other__"] = 42
                o_root["__other__"] = 42
            else:
                other.append(42)
                o_root.append(42)
        elif pre == "external":
            # out-of-band rewrite: a value inside the receiver's position changes (C02)
            mutate_external(o_root, o_recv)
            res.write(copy.deepcopy(o_root))
        before = res.stamp()
        r_exc = o_exc = None
        real_args = args
        if spec.get("operand") == "synced":
            # the operand is a synced object of the receiver's class bound to another resource
            if not isinstance(args[0], (dict if isinstance(o_recv, dict) else list)):
                return None
            tmp2 = os.path.join(tmp, "operand")
            os.makedirs(tmp2)
            op = Resource(spec["class"], tmp2).new()
            op.reset(copy.deepcopy(args[0]))
            real_args = (op,) + tuple(args[1:])
        try:
            r_val = call_real(recv, method, real_args, kwargs)
        except Exception as e:       # noqa: BLE001
            r_exc = e
        try:
            o_val = apply_builtin(o_recv, method, args, kwargs)
        except Exception as e:       # noqa: BLE001
            o_exc = e
        # ---- clause by property
        if prop == "C10":
            if not res.lock_free():
                return f"a lock is still held after {method}{args} ({'raised ' + type(r_exc).__name__ if r_exc else 'returned'})"
            return None
        if prop == "C17":
            if res.stamp() != before:
                return f"read {method}{args} changed the resource: {before!r} -> {res.stamp()!r}"
            return None
        if (r_exc is None) != (o_exc is None):
            return (f"{method}{args}{kwargs}: synced {'raised ' + repr(r_exc) if r_exc else 'returned ' + repr(plainify(r_val))}"
                    f" but built-in {'raised ' + repr(o_exc) if o_exc else 'returned ' + repr(o_val)}")
        if r_exc is not None:
            if prop == "C03" and not same_exc_class(r_exc, o_exc):
                return f"{method}{args}: synced raised {type(r_exc).__name__}, built-in {type(o_exc).__name__}"
        else:
            if prop in ("C03", "C02") and method != "popitem":
                rv, ov = plainify(r_val), plainify(o_val)
                if method == "__iadd__":
                    rv, ov = None, None
                if rv != ov and not (method in ("__repr__", "__str__")):
                    return f"{method}{args}{kwargs} returned {rv!r}, built-in gives {ov!r}"
        if prop in ("C01", "C03", "C04", "C02"):
            mem = plainify(root())
            if mem != o_root:
                return f"after {method}{args}{kwargs}: collection content {mem!r}, built-in content {o_root!r}"
            if method not in READS or prop == "C01":
                disk = res.read()
                if method not in READS and disk != o_root:
                    return f"after {method}{args}{kwargs}: resource holds {disk!r}, expected {o_root!r}"
        return None
    finally:
        shutil.rmtree(tmp, ignore_errors=True)


def mutate_external(o_root, o_recv):
    if isinstance(o_recv, dict):
        o_recv["a"] = {"ext": [1]} if not isinstance(o_recv.get("a"), dict) else None
        o_recv["ext"] = 7
    else:
        if o_recv:
            o_recv[0] = {"ext": 1} if not isinstance(o_recv[0], dict) else None
        o_recv.append("ext")


def same_exc_class(a, b):
    for base in (KeyError, IndexError, ValueError, TypeError):
        if isinstance(a, base) and isinstance(b, base):
            return True
    return type(a) is type(b)


def search(spec):
    kind = "dict" if "Dict" in spec["class"] else "list"
    inits = DICT_INITS if kind == "dict" else LIST_INITS
    cases = 0
    for init in inits:
        for (args, kwargs) in arg_pool(kind, spec["method"]):
            cases += 1
            try:
                msg = run_case(spec, init, args, kwargs)
            except Exception as e:       # noqa: BLE001  harness problem: not a verdict
                return {"found": False, "error": f"{type(e).__name__}: {e}", "cases": cases}
            if msg:
                return {"found": True, "cases": cases, "message": msg,
                        "scenario": dict(spec, init=init, args=enc(args), kwargs=enc(kwargs))}
    return {"found": False, "cases": cases}


def enc(x):
    if isinstance(x, slice):
        return {"__slice__": [x.start, x.stop, x.step]}
    if isinstance(x, tuple):
        return {"__tuple__": [enc(v) for v in x]}
    if isinstance(x, list):
        return [enc(v) for v in x]
    if isinstance(x, dict):
        return {k: enc(v) for k, v in x.items()}
    return x


def dec(x):
    if isinstance(x, dict):
        if "__slice__" in x:
            return slice(*x["__slice__"])
        if "__tuple__" in x:
            return tuple(dec(v) for v in x["__tuple__"])
        return {k: dec(v) for k, v in x.items()}
    if isinstance(x, list):
        return [dec(v) for v in x]
    return x


def main():
    cmd = sys.argv[1]
    if cmd == "search":
        spec = json.loads(sys.argv[2])
        print(json.dumps(search(spec)))
        return 0
    if cmd == "sweep":
        # several (method, role) instances of one class: first failing case wins
        spec = json.loads(sys.argv[2])
        total = 0
        for meth in spec["methods"]:
            for role in spec.get("roles", ["root"]):
                r = search(dict(spec, method=meth, role=role))
                total += r.get("cases", 0)
                if r.get("found") or r.get("error"):
                    r["cases"] = total
                    print(json.dumps(r))
                    return 0
        print(json.dumps({"found": False, "cases": total}))
        return 0
    if cmd == "run":
        sc = json.load(open(sys.argv[2]))
        sc = sc.get("scenario", sc)
        msg = run_case(sc, sc["init"], dec(sc["args"]), dec(sc["kwargs"]))
        if msg:
            print("FAILS:", msg)
            return 1
        print("holds on this scenario")
        return 0
    return 2


if __name__ == "__main__":
    sys.exit(main())
