"""Replayer / bounded stand-in for the in-memory update (`_update`) obligations of C02 / C04 / C12
(runs under /venv/bin/python, PYTHONPATH=<repo tree>).

For every ordered pair (old, new) of documents from a pool that covers value -> null / scalar / other container
kind / same kind, shorter and longer lists, empty containers:
  (1) a collection that showed `old`, after the resource is rewritten to `new` out of band, reads `new`
      (== and, where the store was fresh, leaf types);
  (2) every child handle retained from `old` whose position still holds a container of the same kind in `new`
      reads the new sub-value, and a write through it lands in the resource next to the rest of `new`.
   update_replay.py search <ClassName>    -> JSON {found, message, scenario, cases}
   update_replay.py run <scenario.json>"""
import copy
import json
import os
import shutil
import sys
import tempfile

HERE = os.path.dirname(os.path.abspath(__file__))
sys.path.insert(0, HERE)
from harness import Resource, plainify  # noqa: E402

DICT_DOCS = [
    {}, {"a": 1}, {"a": None}, {"a": {"x": 1}}, {"a": {"x": 1, "y": [1, 2]}}, {"a": [1, 2]}, {"a": [1, {"z": 1}], "b": {"q": []}},
    {"a": {}}, {"a": []}, {"b": 2}, {"a": {"x": 2}, "b": 1}, {"a": [3]}, {"a": [1, 2, 3]}, {"a": "s"}, {"a": 0}, {"a": False},
    {"a": {"x": {"deep": [1]}}}, {"a": {"x": {"deep": [1, 2]}}},
]
LIST_DOCS = [
    [], [1], [None], [{"x": 1}], [{"x": 1}, [1, 2]], [[1, 2]], [[1, {"z": 1}], {"q": []}], [{}], [[]], [1, 2, 3], [{"x": 2}, 1],
    [[3]], [[1, 2, 3]], ["s"], [0], [[1], [2], [3]], [[1], [2]], [{"x": {"deep": [1]}}], [{"x": {"deep": [1, 2]}}], [{"x": 1}, {"y": 2}, 5],
]


def handles(obj, doc, path=()):
    """All (path, handle, sub-document) of nested containers."""
    out = []
    items = doc.items() if isinstance(doc, dict) else enumerate(doc)
    for k, v in items:
        if isinstance(v, (dict, list)):
            h = obj[k]
            out.append((path + (k,), h, v))
            out.extend(handles(h, v, path + (k,)))
    return out


def sub(doc, path):
    for k in path:
        if isinstance(doc, dict):
            if k not in doc:
                return KeyError
            doc = doc[k]
        else:
            if not isinstance(k, int) or k >= len(doc):
                return KeyError
            doc = doc[k]
    return doc


def still_attached(old, new, path):
    """Every position along the path keeps holding a container of the same kind."""
    for i in range(1, len(path) + 1):
        o, n = sub(old, path[:i]), sub(new, path[:i])
        if o is KeyError or n is KeyError or type(o) is not type(n) or not isinstance(n, (dict, list)):
            return False
    return True


def check(cname, old, new):
    tmp = tempfile.mkdtemp(prefix="pyvc_upd_")
    try:
        res = Resource(cname, tmp)
        x = res.new()
        x.reset(copy.deepcopy(old))
        hs = handles(x, old)
        res.write(copy.deepcopy(new))
        got = plainify(x())
        if got != new:
            return f"after the resource was rewritten from {old!r} to {new!r} the collection reads {got!r}"
        for path, h, _ in hs:
            if not still_attached(old, new, path):
                continue
            want = sub(new, path)
            g = plainify(h())
            if g != want:
                return (f"handle at {path} retained from {old!r}: after the rewrite to {new!r} it reads {g!r}, "
                        f"expected {want!r}")
            # a write through the retained handle persists
            exp = copy.deepcopy(new)
            tgt = sub(exp, path)
            if isinstance(tgt, dict):
                h["__w__"] = 1
                tgt["__w__"] = 1
            else:
                h.append("__w__")
                tgt.append("__w__")
            disk = res.read()
            if disk != exp:
                return (f"write through the handle at {path} retained from {old!r} after the rewrite to {new!r}: "
                        f"resource holds {disk!r}, expected {exp!r}")
            res.write(copy.deepcopy(new))
            x()
        return None
    finally:
        shutil.rmtree(tmp, ignore_errors=True)


def search(cname):
    docs = DICT_DOCS if "Dict" in cname else LIST_DOCS
    cases = 0
    for old in docs:
        for new in docs:
            cases += 1
            try:
                msg = check(cname, old, new)
            except Exception as e:      # noqa: BLE001
                msg = f"{type(e).__name__}: {e} (old={old!r}, new={new!r})"
            if msg:
                return {"found": True, "cases": cases, "message": msg, "scenario": {"class": cname, "old": old, "new": new}}
    return {"found": False, "cases": cases}


def main():
    if sys.argv[1] == "search":
        print(json.dumps(search(sys.argv[2])))
        return 0
    if sys.argv[1] == "run":
        sc = json.load(open(sys.argv[2]))
        sc = sc.get("scenario", sc)
        msg = check(sc["class"], sc["old"], sc["new"])
        if msg:
            print("FAILS:", msg)
            return 1
        print("holds on this scenario")
        return 0
    return 2


if __name__ == "__main__":
    sys.exit(main())
