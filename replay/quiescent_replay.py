"""Replayer for `quiescent:no-yield-inside-a-sync-region`: a generator method that yields while synchronisation is
suspended (or a lock is held) hands control to the caller in that state.  Concrete run on the real classes:
open the generator, advance it once, issue a mutation through the same tree, read the backend independently.
  quiescent_replay.py search '{"class": C, "method": m}'   |   quiescent_replay.py run <replay.json>
exit 0 = the property held on this run, 1 = violation (message on stdout)."""
import json, os, sys, tempfile

sys.path.insert(0, os.path.dirname(os.path.abspath(__file__)))


def attempt(cname, meth):
    import harness as H
    tmp = tempfile.mkdtemp(prefix="pyvc_q_")
    res = H.Resource(cname, tmp)
    root = res.new()
    kind = "dict" if "Dict" in cname else "list"
    init = {"a": {"n": 0}, "b": 1} if kind == "dict" else [{"n": 0}, 1]
    root.reset(init)
    try:
        g = getattr(root, meth)()
    except TypeError:
        return None
    if not hasattr(g, "__next__"):
        try:
            g = iter(g)
        except TypeError:
            return None
    try:
        next(g)
    except StopIteration:
        return None
    # a mutation while the generator is suspended at its yield
    if kind == "dict":
        root["b"] = 2
        want = {"a": {"n": 0}, "b": 2}
    else:
        root[1] = 2
        want = [{"n": 0}, 2]
    got = res.read()
    if got != want:
        return (f"C01 violated: {cname}: after `g = x.{meth}(); next(g)` the mutation returned but the backend holds "
                f"{got!r}, expected {want!r}")
    return None


def main():
    mode = sys.argv[1]
    if mode == "search":
        spec = json.loads(sys.argv[2])
        msg = attempt(spec["class"], spec["method"])
        print(json.dumps({"found": bool(msg), "message": msg, "scenario": spec, "cases": 1}))
        return 0
    doc = json.load(open(sys.argv[2]))
    msg = attempt(doc["scenario"]["class"], doc["scenario"]["method"])
    if msg:
        print(msg)
        return 1
    print("ok")
    return 0


if __name__ == "__main__":
    sys.exit(main())
