"""Stub of `numcodecs` so that collection_zarr imports offline. Replay / reflection only."""
import json as _json


class JSON:
    def encode(self, data):
        return _json.dumps(data).encode()

    def decode(self, blob):
        return _json.loads(blob)
