class InvalidDocument(Exception):
    pass
