"""Stub of the `bson` package (pymongo) so that collection_mongodb imports offline. Replay / reflection only."""
from . import errors  # noqa: F401
