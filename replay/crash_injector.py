"""Crash injector for C08 (runs under /venv/bin/python, PYTHONPATH=<repo tree>).

  crash_injector.py search '<json {class, atomic_modes}>'  -> JSON {found, scenario, message, points}
  crash_injector.py run <scenario.json>                   -> exit 1 if the scenario violates C08
  crash_injector.py child <class> <path> <wc> <threads> <point> <prefix>   (internal)

A child process performs one save with builtins.open / file.write / file.close / os.replace wrapped; at
primitive number <point> it calls os._exit (optionally after pushing a prefix of the pending bytes to disk,
which is what the OS may have done).  The parent then reads the target file: with atomic mode in effect it
must hold the complete old or the complete new document, and a fresh collection must open it."""
import builtins
import json
import os
import subprocess
import sys
import tempfile
import shutil

OLD = {"old": [1, 2, 3], "pad": "x" * 40}
NEW = {"new": {"a": [1, {"b": 2}]}, "pad": "y" * 80, "k": 1}


def get_class(name):
    from synced_collections.backends import collection_json as cj
    return getattr(cj, name)


def child(cname, path, wc, threads, point, prefix):
    cls = get_class(cname)
    if not threads:
        cls.disable_multithreading()
    is_dict = "Dict" in cname
    obj = cls(filename=path, write_concern=wc)
    counter = {"n": 0}
    real_open = builtins.open
    real_replace = os.replace

    def hit(tag, fobj=None, pending=b""):
        counter["n"] += 1
        if counter["n"] == point:
            if fobj is not None and pending and prefix > 0:
                k = max(1, int(len(pending) * prefix))
                os.write(fobj.fileno(), pending[:k])
            os._exit(77)

    class W:
        def __init__(self, f):
            self.f = f
            self.pending = b""

        def write(self, b):
            hit("before-write", self.f, b)
            self.pending += bytes(b)
            hit("after-write-buffered", self.f, self.pending)
            return len(b)

        def __enter__(self):
            return self

        def __exit__(self, *a):
            hit("before-close", self.f, self.pending)
            os.write(self.f.fileno(), self.pending)
            self.pending = b""
            self.f.close()
            hit("after-close")
            return False

        def __getattr__(self, n):
            return getattr(self.f, n)

    def my_open(p, mode="r", *a, **k):
        if "w" in mode and "b" in mode:
            hit("before-open")
            f = real_open(p, mode, buffering=0)
            hit("after-open")
            return W(f)
        return real_open(p, mode, *a, **k)

    def my_replace(a, b):
        hit("before-replace")
        real_replace(a, b)
        hit("after-replace")

    data = NEW if is_dict else [NEW, 1]
    builtins.open = my_open
    os.replace = my_replace
    try:
        obj.reset(data)          # root reset: one save, no load
    finally:
        builtins.open = real_open
        os.replace = real_replace
    os._exit(0)


def check(spec, point, prefix):
    """-> message or None; also returns whether the child completed (no more crash points)."""
    tmp = tempfile.mkdtemp(prefix="pyvc_crash_")
    try:
        path = os.path.join(tmp, "t.json")
        is_dict = "Dict" in spec["class"]
        old = OLD if is_dict else [OLD, 0]
        new = NEW if is_dict else [NEW, 1]
        if spec.get("symlink"):
            # the bound file name is a symbolic link to the real file (in another directory)
            os.makedirs(os.path.join(tmp, "real"))
            real = os.path.join(tmp, "real", "r.json")
            with open(real, "w") as f:
                json.dump(old, f)
            os.symlink(real, path)
        else:
            with open(path, "w") as f:
                json.dump(old, f)
        r = subprocess.run([sys.executable, os.path.abspath(__file__), "child", spec["class"], path,
                            "1" if spec["write_concern"] else "0", "1" if spec["threads"] else "0", str(point), str(prefix)],
                           capture_output=True, text=True, timeout=120, env=os.environ)
        done = r.returncode == 0
        if r.returncode not in (0, 77):
            return f"child failed: {r.stderr[-500:]}", True
        atomic = spec["write_concern"] or spec["threads"]
        raw = open(path, "rb").read() if os.path.exists(path) else None
        ok_docs = [json.dumps(old).encode(), json.dumps(new).encode()]
        if atomic:
            if raw is None:
                return f"crash at primitive {point}: target file is gone", done
            try:
                got = json.loads(raw)
            except Exception:
                return f"crash at primitive {point} (prefix {prefix}): target holds {raw[:60]!r}... - neither old nor new", done
            if got != old and got != new:
                return f"crash at primitive {point}: target holds {got!r}", done
            cls = get_class(spec["class"])
            try:
                fresh = cls(filename=path)
                fresh()
            except Exception as e:      # noqa: BLE001
                return f"crash at primitive {point}: a fresh collection cannot open the file: {e!r}", done
        return None, done
    finally:
        shutil.rmtree(tmp, ignore_errors=True)


def search(spec):
    points = 0
    for (wc, threads, link) in [(w, t, l) for l in (False, True) for w in (True, False) for t in (True, False)]:
        if True:
            sp = dict(spec, write_concern=wc, threads=threads, symlink=link)
            if not (wc or threads):
                continue
            for point in range(1, 40):
                finished = False
                for prefix in (0.0, 0.5, 1.0):
                    points += 1
                    msg, done = check(sp, point, prefix)
                    if msg:
                        return {"found": True, "message": msg, "points": points,
                                "scenario": dict(sp, point=point, prefix=prefix)}
                    finished = finished or done
                if finished:
                    break
    return {"found": False, "points": points}


def main():
    cmd = sys.argv[1]
    if cmd == "child":
        child(sys.argv[2], sys.argv[3], sys.argv[4] == "1", sys.argv[5] == "1", int(sys.argv[6]), float(sys.argv[7]))
        return 0
    if cmd == "search":
        print(json.dumps(search(json.loads(sys.argv[2]))))
        return 0
    if cmd == "run":
        sc = json.load(open(sys.argv[2]))
        sc = sc.get("scenario", sc)
        msg, _ = check(sc, sc["point"], sc["prefix"])
        if msg:
            print("FAILS:", msg)
            return 1
        print("holds on this scenario")
        return 0
    return 2


if __name__ == "__main__":
    sys.exit(main())
