"""Bounded stand-in / replayer for the round-trip half of C12 (under /venv/bin/python, PYTHONPATH=<repo tree>):
every value of a JSON pool (boundary scalars, huge ints, unicode / escape-heavy strings, empty keys and containers,
bool / int / float look-alikes, nestings) is stored through every mutating entry point of the class and read back
through a FRESH object bound to the same resource: equal, and the same JSON type at every leaf.  Also samples the
assumption [E-JSON].     roundtrip_replay.py search <ClassName> | run <scenario.json>"""
import copy
import json
import os
import shutil
import sys
import tempfile

HERE = os.path.dirname(os.path.abspath(__file__))
sys.path.insert(0, HERE)
from harness import Resource, type_shape  # noqa: E402

SCALARS = [None, True, False, 0, 1, -1, 2 ** 70, -(2 ** 70), 1.0, 0.0, -2.5, 1e300, 5e-324, "", "a", "\u0000\n\t\\\"/",
           "퟿\U0001f600 ", "é" * 3, " ",
           # unpaired surrogates (what json.loads('"\\ud83d"') and os.fsdecode of a non-UTF-8 name produce): valid str, valid JSON
           "\ud83d", "caf\udce9", "\udfff\ud800"]
VALUES = SCALARS + [[], {}, [[]], {"": {}}, {"": ""}, [True, 1, 1.0, None], {"a": [1, {"b": [2, {"c": None}]}]},
                    [{"k": 2 ** 70}, [1.5, "x"]], {"t": True, "o": 1, "f": 1.0}, [[[[1]]]], {"a.b" if False else "ab": 1}]


def entry_points(kind):
    if kind == "dict":
        return {
            "setitem": lambda x, v: x.__setitem__("k", v),
            "setdefault": lambda x, v: x.setdefault("k", v),
            "update-mapping": lambda x, v: x.update({"k": v}),
            "update-pairs": lambda x, v: x.update([("k", v)]),
            "update-kwargs": lambda x, v: x.update(k=v),
            "reset": lambda x, v: x.reset({"k": v}),
            "ctor": None,
            "nested-setitem": lambda x, v: (x.__setitem__("n", {}), x["n"].__setitem__("k", v)),
            "overwrite": lambda x, v: (x.__setitem__("k", alt(v)), x.__setitem__("k", v)),
            "update-over-lookalike": lambda x, v: (x.__setitem__("k", alt(v)), x.update({"k": v})),
            # an existing non-empty container (or a long string) at the position, then the value through the in-place merge
            "update-over-container": lambda x, v: (x.__setitem__("k", {"a": "x", "b": [1, 2]}), x.update({"k": v})),
            "update-over-list": lambda x, v: (x.__setitem__("k", [1, [2], {"c": 3}]), x.update({"k": v})),
            "reset-over-content": lambda x, v: (x.update({"old": {"a": [1, 2]}, "k": "y" * 64}), x.reset({"k": v})),
            "setitem-after-long": lambda x, v: (x.__setitem__("k", "z" * 256), x.__setitem__("k", v)),
        }
    return {
        "append": lambda x, v: x.append(v),
        "insert": lambda x, v: x.insert(0, v),
        "extend": lambda x, v: x.extend([v]),
        "iadd": lambda x, v: x.__iadd__([v]),
        "setitem": lambda x, v: (x.append(None), x.__setitem__(0, v)),
        "slice": lambda x, v: x.__setitem__(slice(0, 0), [v]),
        "reset": lambda x, v: x.reset([v]),
        "ctor": None,
        "nested-append": lambda x, v: (x.append([]), x[0].append(v)),
        "reset-over-lookalike": lambda x, v: (x.append(alt(v)), x.reset([v])),
        "reset-over-container": lambda x, v: (x.extend([{"a": "x", "b": [1, 2]}, "y" * 64, [3]]), x.reset([v])),
        "setitem-over-container": lambda x, v: (x.append({"a": [1, 2], "s": "z" * 256}), x.__setitem__(0, v)),
    }


def alt(v):
    """A value that compares == to v but has another JSON type (True/1/1.0), else something different."""
    if v is True:
        return 1
    if v is False:
        return 0
    if isinstance(v, int):
        return float(v) if abs(v) < 2 ** 53 else "x"
    if isinstance(v, float) and v == int(v) and abs(v) < 2 ** 53:
        return int(v)
    return "x"


def extract(doc, kind, ep):
    if kind == "dict":
        return doc["n"]["k"] if ep.startswith("nested") else doc["k"]
    if ep.startswith("nested"):
        return doc[0][0]
    return doc[0]


def check(cname, ep, i):
    kind = "dict" if "Dict" in cname else "list"
    v = copy.deepcopy(VALUES[i])
    tmp = tempfile.mkdtemp(prefix="pyvc_rt_")
    try:
        res = Resource(cname, tmp)
        try:
            if ep == "ctor":
                x = res.new(data=({"k": v} if kind == "dict" else [v]))
                x._save() if hasattr(x, "_save") else None
            else:
                x = res.new()
                entry_points(kind)[ep](x, v)
        except Exception as e:      # noqa: BLE001
            return f"{ep}: a JSON value was rejected: {VALUES[i]!r} -> {type(e).__name__}: {e}"
        try:
            fresh = res.new()
            got = extract(fresh(), kind, ep)
        except Exception as e:      # noqa: BLE001
            return f"{ep}: stored {VALUES[i]!r}, reading it back through a fresh object raises {type(e).__name__}: {e}"
        want = json.loads(json.dumps(VALUES[i]))
        if got != want:
            return f"{ep}: stored {VALUES[i]!r}, a fresh object reads {got!r}"
        if type_shape(got) != type_shape(want):
            return f"{ep}: stored {VALUES[i]!r} ({type_shape(want)}), a fresh object reads {got!r} ({type_shape(got)})"
        return None
    finally:
        shutil.rmtree(tmp, ignore_errors=True)


def plain_mode(cname):
    """`nothreads`: the class's thread-safety layer switched off (plain in-place writes for the JSON back end)."""
    import importlib
    for mod in ("synced_collections.backends.collection_json", "synced_collections.backends.collection_redis",
                "synced_collections.backends.collection_mongodb", "synced_collections.backends.collection_zarr"):
        try:
            m = importlib.import_module(mod)
        except Exception:      # noqa: BLE001
            continue
        if hasattr(m, cname):
            cls = getattr(m, cname)
            if getattr(cls, "_supports_threading", False):
                cls.disable_multithreading()
            return


def search(cname):
    kind = "dict" if "Dict" in cname else "list"
    cases = 0
    for ep in entry_points(kind):
        for i in range(len(VALUES)):
            cases += 1
            try:
                msg = check(cname, ep, i)
            except Exception as e:      # noqa: BLE001
                return {"found": False, "cases": cases, "error": f"{type(e).__name__}: {e} in {ep} #{i}"}
            if msg:
                return {"found": True, "cases": cases, "message": msg, "scenario": {"class": cname, "entry": ep, "value": i}}
    return {"found": False, "cases": cases}


def main():
    if sys.argv[1] == "search":
        if "nothreads" in sys.argv[3:]:
            plain_mode(sys.argv[2])
        r = search(sys.argv[2])
        if r.get("found") and "nothreads" in sys.argv[3:]:
            r["scenario"]["nothreads"] = True
        print(json.dumps(r))
        return 0
    if sys.argv[1] == "run":
        sc = json.load(open(sys.argv[2]))
        sc = sc.get("scenario", sc)
        if sc.get("nothreads"):
            plain_mode(sc["class"])
        msg = check(sc["class"], sc["entry"], sc["value"])
        if msg:
            print("FAILS:", msg)
            return 1
        print("holds on this scenario")
        return 0
    return 2


if __name__ == "__main__":
    sys.exit(main())
