"""Bounded stand-in / replayer for the buffer tier (C05, C06, C07, C15, C17b), under /venv/bin/python with
PYTHONPATH=<repo tree>.

Objects a, b are bound to file F1, c to file F2 (all of one buffered class).  A history is a context template,
a capacity and up to three operations; the oracle is one plain container per file (every operation through any
object applies to the file's logical content).  Checked: every result equals the oracle's; the files are not
written before the outermost exit (large capacity); afterwards each file holds the oracle content, the buffer is
empty, its size is 0 and the capacity is what it was; read-only histories leave the files untouched (bytes, inode,
mtime); with one outside write to F1 a modified buffered copy makes the exit raise (MetadataError / BufferedError
naming exactly F1) and keeps the outside content, a read-only copy never raises and is never written, F2 is still
written.
   buffer_replay.py search <ClassName> [limit]   |   run <scenario.json>"""
import copy
import itertools
import json
import os
import shutil
import sys
import tempfile
import time

HERE = os.path.dirname(os.path.abspath(__file__))
sys.path.insert(0, HERE)

from synced_collections.backends import collection_json as cj  # noqa: E402
from synced_collections.errors import BufferedError, MetadataError  # noqa: E402

DICT_OPS = [("set", "k1", 1), ("set", "k2", [1, {"z": 2}]), ("del", "x"), ("read",), ("clear",), ("reset", {"r": 1}),
            ("nested", "n")]
LIST_OPS = [("append", 5), ("append", {"q": [1]}), ("pop",), ("read",), ("clear",), ("reset", [7, 8]), ("nested", 0)]
TEMPLATES = ["backend", "object", "backend(object;rest)", "object(a,b)", "object(b,a)", "object(backend)"]
CAPS = [None, 1, 0]


def initial(kind):
    return {"x": 1, "n": {"m": [1]}} if kind == "dict" else [{"m": [1]}, 2, 3]


def apply_model(model, op):
    """-> result; mutates model."""
    name = op[0]
    if isinstance(model, dict):
        if name == "set":
            model[op[1]] = copy.deepcopy(op[2])
        elif name == "del":
            if op[1] in model:
                del model[op[1]]
            else:
                return KeyError
        elif name == "read":
            return copy.deepcopy(model)
        elif name == "clear":
            model.clear()
        elif name == "reset":
            model.clear()
            model.update(copy.deepcopy(op[1]))
        elif name == "nested":
            if isinstance(model.get(op[1]), dict):
                model[op[1]]["w"] = 1
            else:
                return KeyError
    else:
        if name == "append":
            model.append(copy.deepcopy(op[1]))
        elif name == "pop":
            if model:
                return model.pop()
            return IndexError
        elif name == "read":
            return copy.deepcopy(model)
        elif name == "clear":
            del model[:]
        elif name == "reset":
            model[:] = copy.deepcopy(op[1])
        elif name == "nested":
            if model and isinstance(model[0], dict):
                model[0]["w"] = 1
            else:
                return KeyError
    return None


def apply_real(obj, op):
    name = op[0]
    try:
        if name == "set":
            obj[op[1]] = copy.deepcopy(op[2])
        elif name == "del":
            del obj[op[1]]
        elif name == "read":
            return obj()
        elif name == "clear":
            obj.clear()
        elif name == "reset":
            obj.reset(copy.deepcopy(op[1]))
        elif name == "append":
            obj.append(copy.deepcopy(op[1]))
        elif name == "pop":
            r = obj.pop()
            return r() if hasattr(r, "_to_base") else r
        elif name == "nested":
            ch = obj[op[1]]
            if not hasattr(ch, "_to_base") or not isinstance(ch(), dict):
                return KeyError
            ch["w"] = 1
    except KeyError:
        return KeyError
    except IndexError:
        return KeyError if name == "nested" else IndexError
    return None


def is_write(op):
    return op[0] not in ("read",)


def run(cname, template, cap, steps, ext_at, keep=False):
    """steps: list of (object name, op).  ext_at: index before which an outside write to F1 happens (or None).
    -> message | None"""
    cls = getattr(cj, cname)
    kind = "dict" if "Dict" in cname else "list"
    tmp = tempfile.mkdtemp(prefix="pyvc_buf_")
    try:
        f1, f2 = os.path.join(tmp, "f1.json"), os.path.join(tmp, "f2.json")
        objs = {"a": cls(f1), "b": cls(f1), "c": cls(f2)}
        for o in ("a", "c"):
            objs[o].reset(copy.deepcopy(initial(kind)))
        model = {f1: copy.deepcopy(initial(kind)), f2: copy.deepcopy(initial(kind))}
        fileof = {"a": f1, "b": f1, "c": f2}
        cap0 = cls.get_buffer_capacity()
        stamp0 = {f: (os.stat(f).st_ino, os.stat(f).st_mtime_ns, open(f, "rb").read()) for f in (f1, f2)}
        touched = {f1: False, f2: False}       # modified through the buffer
        entered = {f1: False, f2: False}       # has an entry (was accessed while buffered)
        at_entry = {}
        ext = {"done": False, "conflict": False}
        external_content = {"outside": [1, 2, 3], "pad": "x" * 50} if kind == "dict" else ["outside", "x" * 50]
        msgs = []

        def do(i):
            if ext_at == i and not ext["done"]:
                time.sleep(0.002)
                with open(f1, "w") as fh:
                    json.dump(external_content, fh)
                ext["done"] = True
                ext["entered_before"] = entered[f1]
                if not entered[f1]:
                    model[f1] = copy.deepcopy(external_content)   # not yet buffered: the next access sees the new file
            name, op = steps[i]
            f = fileof[name]
            before = copy.deepcopy(model[f])
            want = apply_model(model[f], op)
            got = apply_real(objs[name], op)
            if not entered[f]:
                at_entry[f] = copy.deepcopy(model[f]) if not is_write(op) or True else None
                # content when the file entered the buffer = logical content before this first buffered operation
                at_entry[f] = before
            entered[f] = True
            if is_write(op) and want not in (KeyError, IndexError):
                touched[f] = True
            if got != want:
                msgs.append(f"step {i} {name}.{op}: returned {got!r}, the shared plain structure gives {want!r}")

        def body(rng):
            for i in rng:
                do(i)
                if msgs:
                    return

        n = len(steps)
        err = None
        try:
            if template == "backend":
                with cls.buffer_backend(cap):
                    body(range(n))
                    mid = {f: open(f, "rb").read() for f in (f1, f2)}
            elif template == "object":
                with objs["a"].buffered:
                    body(range(n))
                    mid = {f: open(f, "rb").read() for f in (f1, f2)}
            elif template == "backend(object;rest)":
                with cls.buffer_backend(cap):
                    with objs["a"].buffered:
                        body(range(min(1, n)))
                    body(range(min(1, n), n))
                    mid = {f: open(f, "rb").read() for f in (f1, f2)}
            elif template == "object(a,b)":
                with objs["a"].buffered, objs["b"].buffered:
                    body(range(n))
                    mid = {f: open(f, "rb").read() for f in (f1, f2)}
            elif template == "object(b,a)":
                with objs["b"].buffered, objs["a"].buffered:
                    body(range(n))
                    mid = {f: open(f, "rb").read() for f in (f1, f2)}
            elif template == "object(backend)":
                with objs["a"].buffered:
                    with cls.buffer_backend(cap):
                        body(range(n))
                    mid = {f: open(f, "rb").read() for f in (f1, f2)}
        except (BufferedError, MetadataError) as e:
            err = e
        if msgs:
            return msgs[0]
        per_object_only = template in ("object", "object(a,b)", "object(b,a)")
        all_buffered = {"backend": True, "backend(object;rest)": True, "object(backend)": False}.get(template, False)
        conflict = ext["done"] and ext.get("entered_before") and touched[f1]
        # a copy that was modified and then brought back to its initial content may or may not be reported
        # (the serialized strategy compares contents, the shared-memory one keeps a flag): both are accepted
        net_unchanged = bool(conflict) and at_entry.get(f1) == model[f1]
        if conflict and template in ("object",) and not any(nm == "a" for nm, _ in steps):
            conflict = conflict   # flushed through a's context only if a is registered; handled by the file checks below
        # --- after all contexts have exited
        if cls.get_buffer_capacity() != cap0:
            return f"capacity not restored: {cls.get_buffer_capacity()} (was {cap0})"
        if cls.get_current_buffer_size() != 0 and not (per_object_only and template != "object"):
            if template in ("backend", "backend(object;rest)", "object(backend)"):
                return f"buffer size is {cls.get_current_buffer_size()} after all contexts exited"
        if template in ("backend", "backend(object;rest)", "object(backend)") and len(cls._buffer) != 0:
            return f"buffer still holds {list(cls._buffer)} after all contexts exited"
        if net_unchanged:
            disk1 = json.load(open(f1))
            if disk1 != external_content:
                return f"the outside writer's content was overwritten: {disk1!r}"
            conflict = err is not None
        if err is not None:
            if not conflict:
                return f"exit raised {err!r} although no modified buffered copy conflicted with an outside write"
            if isinstance(err, BufferedError) and list(err.files) != [f1]:
                return f"BufferedError names {list(err.files)}, expected exactly [{f1}]"
            disk1 = json.load(open(f1))
            if disk1 != external_content:
                return f"the outside writer's content was overwritten: {disk1!r}"
        else:
            if conflict and template in ("backend", "backend(object;rest)"):
                return "a modified buffered copy of an externally changed file was flushed without an error"
        # files hold the final logical content (F1 unless it conflicted)
        for f in (f1, f2):
            if f == f1 and (conflict or net_unchanged or (ext["done"] and ext.get("entered_before") and not touched[f1])):
                continue
            if template == "object" and f == f2:
                pass
            disk = json.load(open(f))
            if disk != model[f]:
                return f"after the outermost exit {os.path.basename(f)} holds {disk!r}, expected {model[f]!r}"
        # read-only histories leave the files untouched
        for f in (f1, f2):
            if not touched[f] and not (f == f1 and ext["done"]):
                st = os.stat(f)
                if (st.st_ino, st.st_mtime_ns, open(f, "rb").read()) != stamp0[f]:
                    return f"{os.path.basename(f)} was only read but was rewritten (inode/mtime/bytes changed)"
        # deferral: with a large capacity nothing is written before the outermost exit (all objects buffered)
        if cap is None and template in ("backend",) and err is None and not ext["done"]:
            for f in (f1, f2):
                if mid[f] != stamp0[f][2]:
                    return f"{os.path.basename(f)} was written while still buffered"
        # every collection is usable and shows what is on disk
        for nm, o in objs.items():
            try:
                v = o()
            except Exception as e:      # noqa: BLE001
                return f"{nm} is unusable after the contexts exited: {e!r}"
            if v != json.load(open(fileof[nm])):
                return f"{nm} shows {v!r} but the file holds {json.load(open(fileof[nm]))!r}"
        return None
    finally:
        # leave the class-level state clean for the next run
        try:
            cls._buffer.clear()
            cls._buffered_collections.clear()
            cls._CURRENT_BUFFER_SIZE = 0
            cls.set_buffer_capacity(cap0)
            ctx = cls._buffer_context
            ctx._count = 0
            ctx._original_buffer_capacitys.clear()
        except Exception:       # noqa: BLE001
            pass
        shutil.rmtree(tmp, ignore_errors=True)


def search(cname, limit=None):
    kind = "dict" if "Dict" in cname else "list"
    ops = DICT_OPS if kind == "dict" else LIST_OPS
    alphabet = [(o, op) for o in ("a", "b", "c") for op in ops]
    cases = 0
    for n in (1, 2, 3):
        seqs = itertools.product(alphabet, repeat=n)
        for steps in seqs:
            steps = list(steps)
            if n == 3 and (hash(repr(steps)) % 7) != 0:       # thin out the longest histories (deterministic)
                continue
            for template in TEMPLATES:
                if template == "object" and any(o == "b" for o, _ in steps):
                    continue      # b would act on F1 unbuffered while a is buffered: different buffering states (out of scope)
                for cap in (CAPS if "backend" in template else [None]):
                    # (outside writes are combined with the large capacity only: a forced flush re-reads the file's
                    #  metadata, which the simple oracle of this sweep does not track)
                    for ext_at in ([None] + (list(range(1, n)) if n > 1 and cap is None else [])):
                        cases += 1
                        try:
                            msg = run(cname, template, cap, steps, ext_at)
                        except Exception as e:      # noqa: BLE001
                            msg = f"unexpected {type(e).__name__}: {e}"
                        if msg:
                            return {"found": True, "cases": cases, "message": msg,
                                    "scenario": {"class": cname, "template": template, "cap": cap,
                                                 "steps": [[o, list(op)] for o, op in steps], "ext_at": ext_at}}
                        if limit and cases >= limit:
                            return {"found": False, "cases": cases}
    return {"found": False, "cases": cases}


def main():
    if sys.argv[1] == "search":
        print(json.dumps(search(sys.argv[2], int(sys.argv[3]) if len(sys.argv) > 3 else None)))
        return 0
    if sys.argv[1] == "run":
        sc = json.load(open(sys.argv[2]))
        sc = sc.get("scenario", sc)
        msg = run(sc["class"], sc["template"], sc["cap"], [(o, tuple(op)) for o, op in sc["steps"]], sc["ext_at"])
        if msg:
            print("FAILS:", msg)
            return 1
        print("holds on this scenario")
        return 0
    return 2


if __name__ == "__main__":
    sys.exit(main())
