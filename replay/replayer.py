"""From a failed obligation to a failing run of the real code (DESIGN.md 5.3), and the bounded stand-ins."""
import hashlib
import json
import os
import re
import subprocess
import sys

HERE = os.path.dirname(os.path.abspath(__file__))
ROOT = os.path.dirname(HERE)
VENV_PY = os.environ.get("PYVC_PYTHON", "/venv/bin/python")
REPLAY_DIR = os.environ.get("PYVC_REPLAY_DIR", os.path.join(ROOT, "replays"))

NAME_RE = re.compile(r"^(C\d+)/(?P<cls>\w+)\.(?P<meth>\w+)@(?P<def>[\w.:]+)/(?P<role>[\w+-]+)/(?P<clause>.+)$")


def parse(name):
    m = NAME_RE.match(name)
    return m.groupdict() if m else None


def group_key(pid, name):
    d = parse(name)
    if d is None:
        return name.rsplit("/", 1)[0]
    return f"{d['cls']}.{d['meth']}/{d['role']}"


def harness(args, repo, timeout=600):
    env = dict(os.environ, PYTHONPATH=repo)
    r = subprocess.run([VENV_PY, os.path.join(HERE, "harness.py")] + args, env=env, capture_output=True, text=True,
                       timeout=timeout)
    return r


def api_spec(pid, key, clause=""):
    m = re.match(r"^(\w+)\.(\w+)/([\w+-]+)$", key)
    if not m:
        return None
    cls, meth, role = m.groups()
    if pid not in API_PIDS or meth.startswith("_") and not meth.startswith("__"):
        return None
    meth = {"index3": "index", "index2": "index"}.get(meth, meth)      # Sequence.index(value, start, stop): same method, longer argument tuples
    spec = {"class": cls, "method": meth, "role": role.split("+")[0], "property": pid}
    if role.endswith("+synced-operand"):
        spec["operand"] = "synced"
    if pid == "C04":
        spec["pre"] = "other-handle"
    if pid == "C02":
        spec["pre"] = "external"
    return spec


def special(pid, key, items, repo):
    """Property-specific replayers registered by other modules."""
    for fn in SPECIAL:
        r = fn(pid, key, items, repo)
        if r is not None:
            return r
    return None


SPECIAL = []
API_PIDS = {"C01", "C02", "C03", "C04", "C10", "C11", "C17"}


_SPECIAL_CACHE = {}
MAX_FULL_REPLAYS = int(os.environ.get("PYVC_MAX_REPLAYS", "3"))
_replays_done = [0]


def concretise(pid, key, items, repo):
    os.makedirs(REPLAY_DIR, exist_ok=True)
    h = hashlib.sha256((pid + key + "".join(n for n, _ in items)).encode()).hexdigest()[:10]
    path = os.path.join(REPLAY_DIR, f"{pid}-{re.sub(r'[^A-Za-z0-9_.-]', '_', key)}-{h}.json")
    doc = {"property": pid, "instance": key,
           "failed_obligations": [{"name": n, "path": rec.get("path"), "events": rec.get("events"),
                                   "model": rec.get("model"), "reason": rec.get("reason"), "info": rec.get("info")}
                                  for n, rec in items[:8]],
           "verifier": "pyvc (z3): the negation of the obligation is satisfiable on this path",
           "confirmed_on_real_code": False}
    confirmed = False
    # searches for a concrete failing run are expensive: a bounded number per check run; a failing run found for one
    # class is shared by the obligations of the same function in the other classes
    fkey = re.sub(r"^\w+\.", "", key)
    if fkey in _SPECIAL_CACHE:
        sp = _SPECIAL_CACHE[fkey]
    elif "$any" in _SPECIAL_CACHE and any(fn(pid, key, items, None) is not None for fn in ()):
        sp = None
    elif _replays_done[0] >= MAX_FULL_REPLAYS:
        sp = dict(_SPECIAL_CACHE.get("$last", {"search": {"skipped": f"replay budget of {MAX_FULL_REPLAYS} searches per run used up"}}))
    else:
        _replays_done[0] += 1
        sp = special(pid, key, items, repo)
        if sp is not None and sp.get("confirmed_on_real_code"):
            _SPECIAL_CACHE[fkey] = sp
            _SPECIAL_CACHE["$last"] = sp
    if sp is not None:
        doc.update(sp)
        confirmed = bool(sp.get("confirmed_on_real_code"))
    else:
        spec = api_spec(pid, key)
        if spec is not None and _replays_done[0] > MAX_FULL_REPLAYS + 10:
            doc["search"] = {"skipped": "replay budget used up"}
            spec = None
        if spec is not None:
            _replays_done[0] += 1
            try:
                r = harness(["search", json.dumps(spec)], repo)
                if r.returncode == 0 and r.stdout.strip():
                    res = json.loads(r.stdout.strip().splitlines()[-1])
                    doc["search"] = {k: v for k, v in res.items() if k != "scenario"}
                    if res.get("found"):
                        doc["scenario"] = res["scenario"]
                        doc["confirmed_on_real_code"] = confirmed = True
                        doc["message"] = res["message"]
                else:
                    doc["search"] = {"error": r.stderr[-2000:]}
            except Exception as e:      # noqa: BLE001
                doc["search"] = {"error": f"{type(e).__name__}: {e}"}
    if not confirmed:
        doc["note"] = ("no concrete failing input was found within the replay budget; the failed obligation, its path "
                       "and the solver's counter-model are above")
    with open(path, "w") as f:
        json.dump(doc, f, indent=1, default=str)
    return path, confirmed


def bounded_standin(pid, name, repo, unsupported=None):
    """-> (True clean | False violation found | None could not run, info dict for the evidence)"""
    key = group_key(pid, name) if unsupported is None else None
    if unsupported is not None:
        m = re.match(r"^(\w+)\.(\w+)/(\w+)", unsupported["instance"])
        key = f"{m.group(1)}.{m.group(2)}/{m.group(3)}" if m else None
    info = {"obligation": name, "tool": "replay/harness.py differential sweep", "bound": "value pools of harness.py"}
    spec = api_spec(pid, key) if key else None
    for fn in SPECIAL_BOUNDED:
        r = fn(pid, name, repo, unsupported)
        if r is not None:
            return r
    if spec is None:
        return None, info
    try:
        r = harness(["search", json.dumps(spec)], repo)
        res = json.loads(r.stdout.strip().splitlines()[-1])
    except Exception as e:      # noqa: BLE001
        info["error"] = f"{type(e).__name__}: {e}"
        return None, info
    info["cases"] = res.get("cases")
    if res.get("error"):
        info["error"] = res["error"]
        return None, info
    if res.get("found"):
        os.makedirs(REPLAY_DIR, exist_ok=True)
        path = os.path.join(REPLAY_DIR, f"{pid}-bounded-{re.sub(r'[^A-Za-z0-9_.-]', '_', key)}.json")
        json.dump({"property": pid, "instance": key, "scenario": res["scenario"], "message": res["message"],
                   "confirmed_on_real_code": True, "found_by": "bounded stand-in"}, open(path, "w"), indent=1)
        info["replay"] = path
        return False, info
    return True, info


SPECIAL_BOUNDED = []


def replay_file(path):
    doc = json.load(open(path))
    repo = os.environ.get("PYVC_REPO", "/repo")
    if "scenario" in doc and "script" not in doc:
        r = harness(["run", path], repo)
        sys.stdout.write(r.stdout)
        sys.stderr.write(r.stderr)
        if r.returncode == 1:
            print(f"VIOLATION property={doc['property']} replay={path}")
            return 1
        return 0 if r.returncode == 0 else 3
    if "script" in doc:
        env = dict(os.environ, PYTHONPATH=repo)
        r = subprocess.run([VENV_PY, os.path.join(ROOT, doc["script"])] +
                           [path if a == "{self}" else a for a in doc.get("script_args", [])], env=env,
                           capture_output=True, text=True, timeout=600)
        sys.stdout.write(r.stdout)
        sys.stderr.write(r.stderr[-3000:])
        if r.returncode != 0:
            print(f"VIOLATION property={doc['property']} replay={path}")
            return 1
        return 0
    print("replay file carries the failed obligation and the verifier output only (no concrete input was found):")
    for o in doc.get("failed_obligations", []):
        print("  ", o["name"])
    print(f"VIOLATION property={doc['property']} replay={path} no-failing-input-found")
    return 1


def c08_special(pid, key, items, repo):
    if pid != "C08":
        return None
    m = re.match(r"^(\w+)\._save_to_resource", key)
    if not m:
        return None
    env = dict(os.environ, PYTHONPATH=repo)
    try:
        r = subprocess.run([VENV_PY, os.path.join(HERE, "crash_injector.py"), "search", json.dumps({"class": m.group(1)})],
                           env=env, capture_output=True, text=True, timeout=900)
        res = json.loads(r.stdout.strip().splitlines()[-1])
    except Exception as e:      # noqa: BLE001
        return {"search": {"error": f"{type(e).__name__}: {e}"}}
    out = {"search": {k: v for k, v in res.items() if k != "scenario"}, "replayer": "replay/crash_injector.py"}
    if res.get("found"):
        out.update(scenario=res["scenario"], message=res["message"], confirmed_on_real_code=True,
                   script="replay/crash_injector.py", script_args=["run", "{self}"])
    return out


SPECIAL.append(c08_special)


def quiescent_special(pid, key, items, repo):
    """`quiescent:no-yield-inside-a-sync-region`: run the generator method, stop it at its first yield, mutate."""
    if not any("quiescent:no-yield" in n for n, _ in items):
        return None
    m = re.match(r"^(\w+)\.(\w+)", key)
    if not m:
        return None
    env = dict(os.environ, PYTHONPATH=repo)
    spec = {"class": m.group(1), "method": m.group(2)}
    try:
        r = subprocess.run([VENV_PY, os.path.join(HERE, "quiescent_replay.py"), "search", json.dumps(spec)],
                           env=env, capture_output=True, text=True, timeout=300)
        res = json.loads(r.stdout.strip().splitlines()[-1])
    except Exception as e:      # noqa: BLE001
        return {"search": {"error": f"{type(e).__name__}: {e}"}}
    out = {"search": {k: v for k, v in res.items() if k != "scenario"}, "replayer": "replay/quiescent_replay.py"}
    if res.get("found"):
        out.update(scenario=res["scenario"], message=res["message"], confirmed_on_real_code=True,
                   script="replay/quiescent_replay.py", script_args=["run", "{self}"])
    return out


SPECIAL.append(quiescent_special)


def _c19_search(repo):
    env = dict(os.environ, PYTHONPATH=repo)
    r = subprocess.run([VENV_PY, os.path.join(HERE, "c19_standin.py"), "search"], env=env, capture_output=True,
                       text=True, timeout=1200)
    return json.loads(r.stdout.strip().splitlines()[-1])


def c19_special(pid, key, items, repo):
    if pid != "C19":
        return None
    try:
        res = _c19_search(repo)
    except Exception as e:      # noqa: BLE001
        return {"search": {"error": f"{type(e).__name__}: {e}"}}
    out = {"search": {k: v for k, v in res.items() if k != "scenario"}, "replayer": "replay/c19_standin.py"}
    if res.get("found"):
        out.update(scenario=res["scenario"], message=res["message"], confirmed_on_real_code=True,
                   script="replay/c19_standin.py", script_args=["run", "{self}"])
    return out


def c19_bounded(pid, name, repo, unsupported):
    if pid != "C19":
        return None
    info = {"obligation": name, "tool": "replay/c19_standin.py: fresh process vs every single-value warm-up history "
            "and two full-pool histories", "bound": "20 value kinds x 12 probes"}
    try:
        res = _c19_search(repo)
    except Exception as e:      # noqa: BLE001
        info["error"] = f"{type(e).__name__}: {e}"
        return None, info
    info["cases"] = res.get("cases")
    if res.get("found"):
        os.makedirs(REPLAY_DIR, exist_ok=True)
        path = os.path.join(REPLAY_DIR, "C19-bounded.json")
        json.dump({"property": pid, "scenario": res["scenario"], "message": res["message"], "confirmed_on_real_code": True,
                   "found_by": "bounded stand-in", "script": "replay/c19_standin.py", "script_args": ["run", "{self}"]},
                  open(path, "w"), indent=1)
        info["replay"] = path
        return False, info
    return True, info


SPECIAL.append(c19_special)
SPECIAL_BOUNDED.append(c19_bounded)


def update_bounded(pid, name, repo, unsupported):
    """`_update` outside the executed subset (e.g. its loops were restructured, so the sidecar invariants no longer fit):
    the CPython cross-check sweep of the in-memory update for that class (all ordered pairs of the document pool)."""
    if unsupported is None:
        return None
    m = re.match(r"^(\w+)\._update/", unsupported["instance"])
    if not m:
        return None
    cname = m.group(1)
    info = {"obligation": name, "tool": "replay/update_replay.py",
            "bound": "all ordered pairs (old, new) of the document pool of update_replay.py; root and retained child handles"}
    env = dict(os.environ, PYTHONPATH=repo)
    try:
        r = subprocess.run([VENV_PY, os.path.join(ROOT, "replay", "update_replay.py"), "search", cname],
                           env=env, capture_output=True, text=True, timeout=900)
        res = json.loads(r.stdout.strip().splitlines()[-1])
    except Exception as e:      # noqa: BLE001
        info["error"] = f"{type(e).__name__}: {e}"
        return None, info
    info["cases"] = res.get("cases")
    if res.get("error"):
        info["error"] = res["error"]
        return None, info
    if res.get("found"):
        os.makedirs(REPLAY_DIR, exist_ok=True)
        path = os.path.join(REPLAY_DIR, f"{pid}-bounded-{cname}-update.json")
        json.dump({"property": pid, "scenario": res["scenario"], "message": res["message"],
                   "confirmed_on_real_code": True, "found_by": "bounded stand-in", "script": "replay/update_replay.py",
                   "script_args": ["run", "{self}"]}, open(path, "w"), indent=1)
        info.update(violation=res["message"], replay=path)
        return False, info
    return True, info


def resource_bounded(pid, name, repo, unsupported):
    """A resource function (_save_to_resource / _load_from_resource) outside the executed subset: the round-trip
    sweep of that class, in the default mode and with the thread-safety layer switched off (plain in-place writes)."""
    if unsupported is None:
        return None
    m = re.match(r"^(\w+)\.(_save_to_resource|_load_from_resource)/", unsupported["instance"])
    if not m:
        return None
    cname = m.group(1)
    info = {"obligation": name, "tool": "replay/roundtrip_replay.py", "bound":
            "33 JSON values x every mutating entry point (incl. overwriting longer content) x {default, nothreads}; "
            "read back by a fresh object"}
    env = dict(os.environ, PYTHONPATH=repo)
    cases = 0
    for extra in ([], ["nothreads"]):
        try:
            r = subprocess.run([VENV_PY, os.path.join(ROOT, "replay", "roundtrip_replay.py"), "search", cname] + extra,
                               env=env, capture_output=True, text=True, timeout=900)
            res = json.loads(r.stdout.strip().splitlines()[-1])
        except Exception as e:      # noqa: BLE001
            info["error"] = f"{type(e).__name__}: {e}"
            return None, info
        cases += res.get("cases") or 0
        if res.get("error"):
            info["error"] = res["error"]
            return None, info
        if res.get("found"):
            os.makedirs(REPLAY_DIR, exist_ok=True)
            path = os.path.join(REPLAY_DIR, f"{pid}-bounded-{cname}-roundtrip.json")
            json.dump({"property": pid, "scenario": res["scenario"], "message": res["message"],
                       "confirmed_on_real_code": True, "found_by": "bounded stand-in", "script": "replay/roundtrip_replay.py",
                       "script_args": ["run", "{self}"]}, open(path, "w"), indent=1)
            info["replay"] = path
            info["cases"] = cases
            return False, info
    info["cases"] = cases
    return True, info


SPECIAL_BOUNDED.append(resource_bounded)
SPECIAL_BOUNDED.append(update_bounded)


def update_special(pid, key, items, repo):
    """Failed obligations of the in-memory update: replay by out-of-band rewrites and retained handles."""
    names = [n for n, _ in items]
    if not any("_update" in n for n in names):
        return None
    m = re.search(r"def:(\w+)\._update", names[0]) or re.search(r"/(\w+)\._update", names[0])
    cname = m.group(1) if m else "JSONDict"
    env = dict(os.environ, PYTHONPATH=repo)
    tried = []
    for cn in (cname, "JSONDict", "JSONList"):
        if cn in tried:
            continue
        tried.append(cn)
        try:
            r = subprocess.run([VENV_PY, os.path.join(HERE, "update_replay.py"), "search", cn], env=env,
                               capture_output=True, text=True, timeout=600)
            res = json.loads(r.stdout.strip().splitlines()[-1])
        except Exception as e:      # noqa: BLE001
            return {"search": {"error": f"{type(e).__name__}: {e}"}}
        if res.get("found"):
            return {"search": {k: v for k, v in res.items() if k != "scenario"}, "replayer": "replay/update_replay.py",
                    "scenario": res["scenario"], "message": res["message"], "confirmed_on_real_code": True,
                    "script": "replay/update_replay.py", "script_args": ["run", "{self}"]}
    return {"search": {"found": False, "classes": tried}, "replayer": "replay/update_replay.py"}


SPECIAL.insert(0, update_special)


def bounded_special(pid, key, items, repo):
    """A bounded sweep that found a failing run: the scenario is already concrete."""
    for n, rec in items:
        if "/bounded:" in n and rec.get("info", {}).get("scenario") is not None:
            i = rec["info"]
            return {"scenario": i["scenario"], "message": i.get("message"), "confirmed_on_real_code": True,
                    "found_by": "bounded stand-in", "script": i["script"], "script_args": ["run", "{self}"]}
    return None


SPECIAL.insert(0, bounded_special)


def buffer_special(pid, key, items, repo):
    """Failed buffer-tier obligations: replay by the buffered-history sweep of the class concerned."""
    names = [n for n, _ in items]
    if not any(x in names[0] for x in ("_flush", "_buffer", "buffered.", "buffer_backend", "set_buffer_capacity")):
        return None
    m = re.search(r"/(\w*Buffered\w+)\.", names[0])
    cname = m.group(1) if m else "BufferedJSONDict"
    env = dict(os.environ, PYTHONPATH=repo)
    tried = []
    for cn in (cname, "MemoryBufferedJSONDict" if cname.startswith("Buffered") else "BufferedJSONDict"):
        if cn in tried:
            continue
        tried.append(cn)
        try:
            r = subprocess.run([VENV_PY, os.path.join(HERE, "buffer_replay.py"), "search", cn, "6000"], env=env,
                               capture_output=True, text=True, timeout=600)
            res = json.loads(r.stdout.strip().splitlines()[-1])
        except Exception as e:      # noqa: BLE001
            return {"search": {"error": f"{type(e).__name__}: {e}"}}
        if res.get("found"):
            return {"search": {k: v for k, v in res.items() if k != "scenario"}, "replayer": "replay/buffer_replay.py",
                    "scenario": res["scenario"], "message": res["message"], "confirmed_on_real_code": True,
                    "script": "replay/buffer_replay.py", "script_args": ["run", "{self}"]}
    return {"search": {"found": False, "classes": tried}, "replayer": "replay/buffer_replay.py"}


SPECIAL.insert(1, buffer_special)
