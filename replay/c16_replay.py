"""Replayer / bounded stand-in for C16 (aliasing), under /venv/bin/python with PYTHONPATH=<repo tree>.
   c16_replay.py search <ClassName> | run <scenario.json>"""
import copy
import json
import os
import shutil
import sys
import tempfile

HERE = os.path.dirname(os.path.abspath(__file__))
sys.path.insert(0, HERE)
from harness import Resource, plainify  # noqa: E402

NESTED = [{"a": [1, {"b": [2]}]}, [1, [2, {"c": 3}], {"d": [4]}], {"x": {"y": {"z": [1]}}}, [[1], [2]], {"k": []}, [{"m": {}}],
          [1, {"a": [1]}, [2], 3],
          # flat containers (a nested node built from one could adopt the caller's object instead of copying it)
          {"p": 1, "q": "s"}, [1, 2]]


def walk_mutate(v):
    """Mutate every container reachable from v (in place)."""
    if hasattr(v, "_to_base"):
        return
    if isinstance(v, dict):
        for x in list(v.values()):
            walk_mutate(x)
        v["__mut__"] = 1
    elif isinstance(v, list):
        for x in list(v):
            walk_mutate(x)
        v.append("__mut__")


def scenarios(kind):
    out = []
    for i, val in enumerate(NESTED):
        if kind == "dict":
            out += [("setitem", i), ("setdefault", i), ("update", i), ("reset", i), ("ctor", i), ("call", i), ("values", i),
                    ("items", i), ("pop", i), ("popitem", i), ("del", i), ("assign-child", i), ("assign-other", i)]
        else:
            out += [("setitem", i), ("append", i), ("insert", i), ("extend", i), ("iadd", i), ("reset", i), ("ctor", i),
                    ("call", i), ("pop", i), ("slice", i), ("assign-child", i), ("assign-other", i)]
    return out


def check(cname, op, i, buffered=False):
    """buffered=True: the same scenario inside `with x.buffered:` (no reload from the resource hides an alias)."""
    if buffered:
        return _check_buffered(cname, op, i)
    return _check(cname, op, i, None)


def _check_buffered(cname, op, i):
    import contextlib
    holder = {}

    @contextlib.contextmanager
    def enter(x):
        with x.buffered:
            yield
    return _check(cname, op, i, enter)


def _check(cname, op, i, enter):
    kind = "dict" if "Dict" in cname else "list"
    tmp = tempfile.mkdtemp(prefix="pyvc_c16_")
    stack = None
    try:
        res = Resource(cname, tmp)
        val = copy.deepcopy(NESTED[i])
        x = res.new()
        if kind == "dict":
            x.reset({"keep": {"q": [0]}})
        else:
            x.reset([{"q": [0]}])

        if enter is not None:
            import contextlib
            stack = contextlib.ExitStack()
            stack.enter_context(enter(x))

        def expect_unchanged(what, before_mem, before_disk):
            mem, disk = plainify(x()), res.read()
            if mem != before_mem:
                return f"{op}: {what} changed the collection: {before_mem!r} -> {mem!r}"
            if enter is not None:
                stack.close()           # leaving the buffered context writes the (unchanged) content
                disk, before_disk = res.read(), before_mem
            if disk != before_disk:
                return f"{op}: {what} changed the resource: {before_disk!r} -> {disk!r}"
            return None
        if op in ("setitem", "setdefault", "update", "append", "insert", "extend", "iadd", "reset", "slice"):
            if kind == "dict":
                {"setitem": lambda: x.__setitem__("k", val), "setdefault": lambda: x.setdefault("k", val),
                 "update": lambda: x.update({"k": val}), "reset": lambda: x.reset({"k": val})}[op]()
            else:
                if op == "iadd":
                    x += [val]
                else:
                    {"setitem": lambda: x.__setitem__(0, val), "append": lambda: x.append(val), "insert": lambda: x.insert(0, val),
                     "extend": lambda: x.extend([val]), "reset": lambda: x.reset([val]),
                     "slice": lambda: x.__setitem__(slice(0, 1), [val])}[op]()
            m, d = plainify(x()), res.read()
            walk_mutate(val)
            msg = expect_unchanged("mutating the argument afterwards", m, d)
            if msg:
                return msg
            # the other direction: mutating the collection through the stored child leaves the caller's object alone
            arg_before = copy.deepcopy(val)
            try:
                child = x["k"] if kind == "dict" else x[0]
                if hasattr(child, "_to_base"):
                    if isinstance(plainify(child()), dict):
                        child["__col__"] = 1
                    else:
                        child.append("__col__")
            except (KeyError, IndexError):
                pass
            if val != arg_before:
                return f"{op}: mutating the collection changed the caller's object: {arg_before!r} -> {val!r}"
            return None
        if op == "ctor":
            p2 = os.path.join(tmp, "ctor")
            os.makedirs(p2)
            r2 = Resource(cname, p2)
            data = {"k": val} if kind == "dict" else [val]
            y = r2.new(data=data)
            m = plainify(y())
            walk_mutate(data)
            if plainify(y()) != m:
                return f"ctor: mutating the constructor data afterwards changed the collection: {m!r} -> {plainify(y())!r}"
            return None
        # results
        if kind == "dict":
            x["k"] = val
        else:
            x.append(val)
        m, d = plainify(x()), res.read()
        if op == "call":
            r = x()
            walk_mutate(r)
            return expect_unchanged("mutating the result of ()", m, d)
        if op in ("values", "items"):
            r = list(getattr(x, op)())
            for e in r:
                walk_mutate(e[1] if op == "items" else e)
            return expect_unchanged(f"mutating the result of {op}()", m, d)
        if op in ("pop", "popitem", "del"):
            if op == "pop":
                r = x.pop("k") if kind == "dict" else x.pop()
            elif op == "popitem":
                r = x.popitem()[1]
            else:
                r = x["k"]
                del x["k"]
            m, d = plainify(x()), res.read()
            try:
                if hasattr(r, "_to_base"):
                    if isinstance(plainify(r()), dict):
                        r["__mut__"] = 1
                    else:
                        r.append("__mut__")
                else:
                    walk_mutate(r)
            except Exception:       # noqa: BLE001  (a detached child may refuse; that is fine)
                pass
            return expect_unchanged("mutating the removed value", m, d)
        if op in ("assign-child", "assign-other"):
            if op == "assign-child":
                src = x["k"] if kind == "dict" else x[-1]
            else:
                p2 = os.path.join(tmp, "other")
                os.makedirs(p2)
                src = Resource(cname if type(val) is (dict if kind == "dict" else list) else
                               (cname.replace("Dict", "List") if isinstance(val, list) else cname.replace("List", "Dict")), p2).new()
                src.reset(copy.deepcopy(val))
            if not hasattr(src, "_to_base"):
                return None
            if kind == "dict":
                x["copy"] = src
                dst = x["copy"]
            else:
                x.append(src)
                dst = x[-1]
            before = plainify(dst())
            if isinstance(before, dict):
                src["__mut__"] = 1
            else:
                src.append("__mut__")
            after = plainify(dst())
            if after != before:
                return f"{op}: the stored copy changed when the source was mutated: {before!r} -> {after!r}"
            return None
        return None
    finally:
        if stack is not None:
            try:
                stack.close()
            except Exception:       # noqa: BLE001
                pass
        shutil.rmtree(tmp, ignore_errors=True)


def search(cname):
    kind = "dict" if "Dict" in cname else "list"
    cases = 0
    for op, i in scenarios(kind):
        cases += 1
        try:
            msg = check(cname, op, i)
            if msg is None and "Buffered" in cname and op in ("setitem", "setdefault", "update", "append", "insert", "extend",
                                                              "iadd", "reset", "slice"):
                cases += 1
                msg = check(cname, op, i, buffered=True)
                if msg:
                    return {"found": True, "cases": cases, "message": msg,
                            "scenario": {"class": cname, "op": op, "value": i, "buffered": True}}
        except Exception as e:      # noqa: BLE001
            msg = None
            return {"found": False, "cases": cases, "error": f"{type(e).__name__}: {e} in {op} #{i}"}
        if msg:
            return {"found": True, "cases": cases, "message": msg, "scenario": {"class": cname, "op": op, "value": i}}
    return {"found": False, "cases": cases}


def main():
    if sys.argv[1] == "search":
        print(json.dumps(search(sys.argv[2])))
        return 0
    if sys.argv[1] == "run":
        sc = json.load(open(sys.argv[2]))
        sc = sc.get("scenario", sc)
        msg = check(sc["class"], sc["op"], sc["value"], buffered=bool(sc.get("buffered")))
        if msg:
            print("FAILS:", msg)
            return 1
        print("holds on this scenario")
        return 0
    return 2


if __name__ == "__main__":
    sys.exit(main())
