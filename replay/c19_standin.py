"""Bounded stand-in / replayer for C19 (runs under /venv/bin/python, PYTHONPATH=<repo tree>).

For a pool of values of diverse types, the outcome of validators / conversion in a FRESH interpreter is compared
with the outcome after every single-value and a few multi-value warm-up histories.
   c19_standin.py search   -> JSON {found, message, scenario, cases}
   c19_standin.py run <scenario.json>"""
import json
import os
import subprocess
import sys
import tempfile

PRELUDE = r'''
import json, sys, tempfile, os, warnings
warnings.simplefilter("ignore")
from collections.abc import Mapping, Sequence
from synced_collections.validators import json_format_validator, require_string_key, no_dot_in_key
from synced_collections.backends.collection_json import JSONDict, JSONList, JSONAttrDict, json_attr_dict_validator
class Plain: pass
class PlainMap(Plain, Mapping):
    def __getitem__(s,k): raise KeyError(k)
    def __iter__(s): return iter(())
    def __len__(s): return 0
class Row(dict, Sequence): pass
class MyDict(dict): pass
class MyList(list): pass
class MyStr(str): pass
class MyInt(int): pass
class USeq(Sequence):
    def __init__(s, v=()): s.v=list(v)
    def __getitem__(s,i): return s.v[i]
    def __len__(s): return len(s.v)
class UMap(Mapping):
    def __init__(s, d=None): s.d=dict(d or {})
    def __getitem__(s,k): return s.d[k]
    def __iter__(s): return iter(s.d)
    def __len__(s): return len(s.d)
POOL = {
 "dict": lambda: {"a": 1}, "list": lambda: [1], "tuple": lambda: (1, 2), "str": lambda: "s", "int": lambda: 1,
 "none": lambda: None, "set": lambda: {1}, "Plain": lambda: Plain(), "PlainMap": lambda: PlainMap(), "Row": lambda: Row(a=1),
 "MyDict": lambda: MyDict(a=1), "MyList": lambda: MyList([1]), "MyStr": lambda: MyStr("x"), "MyInt": lambda: MyInt(3),
 "USeq": lambda: USeq([1]), "UMap": lambda: UMap({"a": 1}), "bytes": lambda: b"ab", "float": lambda: 1.5, "bool": lambda: True,
 "complex": lambda: 1j,
}
def outcome(f):
    try:
        r = f()
        return ["ok", repr(r)]
    except Exception as e:
        return ["exc", type(e).__name__]
def probe(name):
    d = tempfile.mkdtemp()
    v = POOL[name]
    res = {}
    for vn, val in (("json_format_validator", json_format_validator), ("require_string_key", require_string_key),
                    ("no_dot_in_key", no_dot_in_key), ("json_attr_dict_validator", json_attr_dict_validator)):
        res[vn] = outcome(lambda: val(v()))
        res[vn + "[nested]"] = outcome(lambda: val({"k": [v()]}))
    def setitem():
        x = JSONDict(os.path.join(d, "a.json")); x["k"] = v(); return (type(x["k"]).__name__, x())
    res["JSONDict.__setitem__"] = outcome(setitem)
    def reset():
        x = JSONDict(os.path.join(d, "b.json")); x.reset(v()); return x()
    res["JSONDict.reset"] = outcome(reset)
    def append():
        x = JSONList(os.path.join(d, "c.json")); x.append(v()); return (type(x[0]).__name__, x())
    res["JSONList.append"] = outcome(append)
    def update():
        x = JSONDict(os.path.join(d, "e.json")); x["k"] = {"q": 1}; x.update({"k": v()}); return (type(x["k"]).__name__, x())
    res["JSONDict.update(merge)"] = outcome(update)
    return res
'''


def run_history(history, probe):
    code = PRELUDE + f"\nfor h in {history!r}:\n    probe(h)\nprint(json.dumps(probe({probe!r})))\n"
    r = subprocess.run([sys.executable, "-c", code], capture_output=True, text=True, timeout=120, env=os.environ)
    if r.returncode != 0:
        raise RuntimeError(r.stderr[-800:])
    return json.loads(r.stdout.strip().splitlines()[-1])


NAMES = ["dict", "list", "tuple", "str", "int", "none", "set", "Plain", "PlainMap", "Row", "MyDict", "MyList", "MyStr",
         "MyInt", "USeq", "UMap", "bytes", "float", "bool", "complex"]


def search(limit=None):
    cases = 0
    fresh = {n: run_history([], n) for n in NAMES}
    # one process per warm-up history; the probe set is evaluated for every probe after the history
    for h in [[w] for w in NAMES] + [NAMES, list(reversed(NAMES))]:
        for p in NAMES:
            if len(h) == 1 and h[0] == p:
                continue
            cases += 1
            got = run_history(h, p)
            if got != fresh[p]:
                diff = {k: (fresh[p][k], got[k]) for k in got if got[k] != fresh[p].get(k)}
                return {"found": True, "cases": cases, "scenario": {"history": h, "probe": p},
                        "message": f"probing {p!r} after history {h}: outcomes differ from a fresh process: {diff}"}
            if limit and cases >= limit:
                return {"found": False, "cases": cases}
    return {"found": False, "cases": cases}


def main():
    if sys.argv[1] == "search":
        print(json.dumps(search(int(sys.argv[2]) if len(sys.argv) > 2 else None)))
        return 0
    if sys.argv[1] == "run":
        sc = json.load(open(sys.argv[2]))
        sc = sc.get("scenario", sc)
        a, b = run_history([], sc["probe"]), run_history(sc["history"], sc["probe"])
        if a != b:
            print("FAILS: outcome depends on the history:", {k: (a[k], b[k]) for k in a if a[k] != b[k]})
            return 1
        print("holds on this scenario")
        return 0
    return 2


if __name__ == "__main__":
    sys.exit(main())
