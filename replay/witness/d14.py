import tempfile,os,json,sys,types
from synced_collections.backends.collection_json import *
from synced_collections.validators import require_string_key
from synced_collections.errors import *
d=tempfile.mkdtemp()
for C in (JSONAttrDict,BufferedJSONAttrDict,MemoryBufferedJSONAttrDict):
    p=os.path.join(d,C.__name__+'.json')
    x=C(p); x['l']=[]
    try: x['l'].append({'a.b':1})
    except InvalidKeyError: pass
    else: raise SystemExit('D14 stored %r'%json.load(open(p)))
try: require_string_key([{1:2}])
except KeyTypeError: pass
else: raise SystemExit('D15 require_string_key')
sys.modules['numcodecs']=types.ModuleType('numcodecs')
from synced_collections.backends.collection_zarr import ZarrList, ZarrDict
assert require_string_key in ZarrList._all_validators and ZarrDict._all_validators==[require_string_key], (ZarrList._all_validators, ZarrDict._all_validators)
print('ok')
