import tempfile,os
from synced_collections.backends.collection_json import JSONList
d=tempfile.mkdtemp()
x=JSONList(os.path.join(d,'c.json'),data=[1])
assert (x<[2]) is True, x<[2]
assert (x<[0]) is False
print("ok")
