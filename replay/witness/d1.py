import tempfile,os,json
from synced_collections.backends.collection_json import JSONList,JSONDict
d=tempfile.mkdtemp()
p=os.path.join(d,'a.json')
x=JSONDict(p); x['k']={'a':1}
json.dump({'k':None}, open(p,'w'))
assert x()=={'k':None}, x()
p=os.path.join(d,'b.json')
x=JSONList(p); x.append([1]); json.dump([None], open(p,'w'))
assert x()==[None], x()
print('ok')
