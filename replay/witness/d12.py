"""D12 (C10b): lock-order inversion of the root clear()/reset() of the buffered classes in buffered mode.
Thread A runs x.clear(): it holds the FILE lock and then needs the BUFFER lock (its save goes to the buffer).
Thread B runs x['b'] = 1: _BufferedLoadAndSave takes the BUFFER lock first and then needs the FILE lock.
Directed schedule: A is stopped on entry to _save_to_buffer (file lock held), B runs until it holds the buffer lock,
then both continue -> each waits for the lock the other holds.  usage: d12.py [Class] [clear|reset]"""
import os, sys, tempfile, threading
from synced_collections.backends import collection_json as cj
from synced_collections.data_types.synced_collection import _LoadAndSave

cname = sys.argv[1] if len(sys.argv) > 1 else "BufferedJSONDict"
op = sys.argv[2] if len(sys.argv) > 2 else "clear"
C = getattr(cj, cname)
d = tempfile.mkdtemp()
x = C(os.path.join(d, "f.json"))
is_dict = "Dict" in cname
x.reset({"a": 1} if is_dict else [1])
a_in, b_has = threading.Event(), threading.Event()
orig_stb = C._save_to_buffer
orig_enter = _LoadAndSave.__enter__


def stb(self):
    if threading.current_thread().name == "A" and not a_in.is_set():
        a_in.set()
        b_has.wait(5)
    return orig_stb(self)


def enter(self):
    if threading.current_thread().name == "B":
        b_has.set()          # B holds the buffer lock now (taken by _BufferedLoadAndSave.__enter__ before this call)
    return orig_enter(self)


C._save_to_buffer = stb
_LoadAndSave.__enter__ = enter
done = []


def A():
    with C.buffer_backend():
        a_ready.set()
        hold.wait(5)


a_ready, hold = threading.Event(), threading.Event()


def TA():
    (x.clear() if op == "clear" else x.reset({"r": 1} if is_dict else [9]))
    done.append("A")


def TB():
    a_in.wait(5)
    if is_dict:
        x["b"] = 1
    else:
        x.append(1)
    done.append("B")


ctx = C.buffer_backend()
ctx.__enter__()
ta = threading.Thread(target=TA, name="A", daemon=True)
tb = threading.Thread(target=TB, name="B", daemon=True)
ta.start(); tb.start()
ta.join(3); tb.join(3)
stuck = ta.is_alive() and tb.is_alive()
C._save_to_buffer = orig_stb
_LoadAndSave.__enter__ = orig_enter
assert not stuck, f"C10 violated: {cname}.{op}() and a concurrent write dead-lock (file lock <-> buffer lock); finished: {done}"
print("ok", done)
os._exit(0)
