"""D16 (C14): a read running next to a write loses the write.  Directed schedule: the reader is stopped right
after it entered the shared suspend counter inside its load (SyncedCollection._load -> with self._suspend_sync),
the writer runs x['k'] = 1 to completion (its load and its save are both skipped because the counter is raised),
the reader resumes.  Expected by C14: the file contains 'k'.  usage: d16.py [read-op]"""
import json, os, sys, tempfile, threading
from synced_collections.backends.collection_json import JSONDict
from synced_collections.utils import _CounterContext

op = sys.argv[1] if len(sys.argv) > 1 else "getitem"
d = tempfile.mkdtemp()
p = os.path.join(d, "c.json")
x = JSONDict(p)
x["a"] = 1
at, go = threading.Event(), threading.Event()
orig = _CounterContext.__enter__


def hooked(self):
    orig(self)
    if threading.current_thread().name == "reader" and not at.is_set():
        at.set()
        go.wait(5)


_CounterContext.__enter__ = hooked
if op.startswith("list-"):
    # the same defect through a list: reads of a nested list (membership, inherited from collections.abc.Sequence)
    x["l"] = [1, 2]
    lst = x["l"]
    at.clear()
READS = {"list-contains": lambda: 1 in lst, "list-getitem": lambda: lst[0], "list-index": lambda: lst.index(2), "list-count": lambda: lst.count(2),
         "getitem": lambda: x["a"], "get": lambda: x.get("a"), "len": lambda: len(x), "iter": lambda: list(x),
         "call": lambda: x(), "eq": lambda: x == {}, "keys": lambda: list(x.keys()), "values": lambda: list(x.values()),
         "items": lambda: list(x.items()), "contains": lambda: "a" in x, "repr": lambda: repr(x), "str": lambda: str(x)}
res = {}


def reader():
    res["r"] = READS[op]()


def writer():
    at.wait(5)
    x["k"] = 1
    go.set()


t1 = threading.Thread(target=reader, name="reader")
t2 = threading.Thread(target=writer, name="writer")
t1.start(); t2.start(); t1.join(); t2.join()
_CounterContext.__enter__ = orig
final = json.load(open(p))
assert "k" in final, f"C14 violated: the writer's update was lost next to a concurrent {op}: file holds {final!r}"
print("ok", final)
