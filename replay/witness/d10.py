import tempfile,os,json,threading
from synced_collections.backends.collection_json import *
from synced_collections.data_types.synced_collection import SyncedCollection
d=tempfile.mkdtemp()
p=os.path.join(d,'l.json')
x=JSONList(p); x.extend([1,2])
# directed schedule: preempt thread A right after the first load/read of pop(), run B's append, resume A
orig=SyncedCollection._load
evA=threading.Event(); evB=threading.Event(); st={'n':0}
def hooked(self):
    r=orig(self)
    if threading.current_thread().name=='A' and not self._suspend_sync:
        st['n']+=1
    return r
SyncedCollection._load=hooked
import sys
def tracer(frame, event, arg):
    # stop A when MutableSequence.pop has evaluated v = self[index] (line event on the del statement)
    if frame.f_code.co_name=='pop' and 'collections_abc' in frame.f_code.co_filename:
        def local(frame, event, arg):
            if event=='line' and st['n']>=1 and not st.get('done'):
                st['done']=True; evA.set(); evB.wait(2.0)
            return local
        return local
    return None
res={}
def A():
    sys.settrace(tracer)
    try: res['pop']=x.pop()
    finally: sys.settrace(None)
def B():
    evA.wait(5); x.append(3); evB.set()
ta=threading.Thread(target=A,name='A'); tb=threading.Thread(target=B,name='B')
ta.start(); tb.start(); ta.join(); tb.join()
SyncedCollection._load=orig
final=json.load(open(p))
serial=[(2,[1,3]),(3,[1,2])]
assert (res['pop'],final) in serial, ('not linearizable',res['pop'],final)
print('ok',res['pop'],final)
