"""D21 (C07): a capacity-forced flush of the shared-memory buffer refreshed the stored metadata of an entry that was
only read; an outside change made after the file entered the buffer was then forgotten and a later modification of
the buffered copy overwrote it without an error.  Fails before /repo commit 0ce602c, passes after."""
import json
import os
import tempfile
import time

from synced_collections.backends.collection_json import MemoryBufferedJSONDict as C
from synced_collections.errors import BufferedError, MetadataError

d = tempfile.mkdtemp()
a, b = os.path.join(d, "a.json"), os.path.join(d, "b.json")
json.dump({"x": 0}, open(a, "w"))
json.dump({"y": 0}, open(b, "w"))
ca, cb = C(a), C(b)
cap = C.get_buffer_capacity()
err = None
try:
    with C.buffer_backend():
        ca["x"]                       # a.json enters the buffer, read-only
        time.sleep(0.01)
        json.dump({"x": "OUTSIDE", "pad": 1}, open(a, "w"))   # outside writer, after a.json entered the buffer
        cb["y"] = 1                   # another file is modified ...
        C.set_buffer_capacity(0)      # ... so this forces a flush; a's copy is unmodified
        C.set_buffer_capacity(cap)
        ca["x"] = 1                   # now a's buffered copy is modified
except (MetadataError, BufferedError) as e:
    err = e
finally:
    C.set_buffer_capacity(cap)
on_disk = json.load(open(a))
assert err is not None and on_disk == {"x": "OUTSIDE", "pad": 1}, ("outside content silently overwritten", err, on_disk)
print("ok")
