import tempfile,os,json
from synced_collections.backends.collection_json import *
d=tempfile.mkdtemp()
def rd(p): return json.load(open(p))
for op in ('clear','reset'):
    p=os.path.join(d,op+'.json')
    x=JSONDict(p); x['a']={'p':1}; x['b']=1
    ch=x['a']
    y=JSONDict(p); y['b']=2
    if op=='clear': ch.clear(); exp={'a':{},'b':2}
    else: ch.reset({'q':1}); exp={'a':{'q':1},'b':2}
    assert rd(p)==exp,(op,rd(p))
# D4
p=os.path.join(d,'f.json')
x=MemoryBufferedJSONDict(p); x['a']=1
with x.buffered:
    x['b']=2
    x.clear()
    r=x()
assert r=={} and rd(p)=={}, (r,rd(p))
x=MemoryBufferedJSONList(os.path.join(d,'g.json')); x.append(1)
with x.buffered:
    x.append(2); x.clear(); r=x()
assert r==[], r
print('ok')
