import tempfile,os,json,threading
from synced_collections.backends.collection_json import *
d=tempfile.mkdtemp()
for C,lk in ((JSONDict,'t'),(BufferedJSONDict,'t'),(BufferedJSONDict,'b')):
    p=os.path.join(d,C.__name__+lk+'.json')
    x=C(p); x['a']=1
    open(p,'w').write('{bad')
    try: x['b']=2
    except Exception as e: pass
    else: raise SystemExit('no exc')
    res=[]
    def w():
        l=C._locks[p] if lk=='t' else C._BUFFER_LOCK
        got=l.acquire(timeout=1); res.append(got)
        if got: l.release()
    th=threading.Thread(target=w); th.start(); th.join()
    assert res==[True],(C,lk,res)
print('ok')
