import tempfile,os,json,threading
from synced_collections.backends.collection_json import *
d=tempfile.mkdtemp()
p=os.path.join(d,'a.json'); q=os.path.join(d,'b.json')
a=JSONDict(p); b=JSONDict(p); a['x']=1
c=JSONDict(q); lq=JSONDict._locks[q]
a.filename=q
b['y']=2
assert json.load(open(p))=={'x':1,'y':2}
assert JSONDict._locks[q] is lq
a['z']=1; assert json.load(open(q))=={'x':1,'z':1}
print('ok')
