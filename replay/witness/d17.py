import warnings; warnings.simplefilter('ignore')
import numpy as np
from synced_collections.validators import json_format_validator, _json_format_validator_type_resolver as R
class MyArr(np.ndarray): pass
z=np.array(5).view(MyArr); o=np.array([1,2]).view(MyArr)
def tryv(x):
    try: json_format_validator(x); return 'ok'
    except Exception as e: return type(e).__name__
R.type_map.clear(); r1=tryv(o); R.type_map.clear(); tryv(z); r2=tryv(o)
assert r1==r2=='ok',(r1,r2)
print('ok')
