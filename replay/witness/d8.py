import tempfile,os,json,time
from synced_collections.backends.collection_json import *
from synced_collections.errors import *
d=tempfile.mkdtemp()
for C in (BufferedJSONDict, MemoryBufferedJSONDict):
    # D8: capacity restored after BufferedError at exit
    p=os.path.join(d,C.__name__+'8.json')
    a=C(p); a['x']=1
    cap=C.get_buffer_capacity()
    try:
        with C.buffer_backend(5 if C is MemoryBufferedJSONDict else 10**6):
            a['y']=2
            time.sleep(0.01)
            json.dump({'ext':1,'pad':'xxxxxxxxxxxx'}, open(p,'w'))
    except BufferedError as e:
        assert list(e.files)==[p]
    else: raise SystemExit('no BufferedError')
    assert C.get_buffer_capacity()==cap, ('D8 capacity',C.__name__,C.get_buffer_capacity(),cap)
    assert C._buffer_context._original_buffer_capacitys==[], C._buffer_context._original_buffer_capacitys
    assert len(C._buffer)==0 and C.get_current_buffer_size()==0
    assert a()=={'ext':1,'pad':'xxxxxxxxxxxx'}
    # D9: forced flush failing, then contexts exit
    p=os.path.join(d,C.__name__+'9.json')
    a=C(p); a['x']=1
    try:
        with C.buffer_backend():
            a['y']=2
            time.sleep(0.01)
            json.dump({'ext':1,'pad':'xxxxxxxxxxxx'}, open(p,'w'))
            try:
                C.set_buffer_capacity(0)
            except BufferedError as e:
                assert list(e.files)==[p]
            else: raise SystemExit('no BufferedError (forced)')
            C.set_buffer_capacity(cap)
    except BufferedError as e:
        print('  exit also raised', list(e.files))
    assert len(C._buffer)==0, ('D9 orphan entry', C.__name__, list(C._buffer))
    assert C.get_current_buffer_size()==0
    assert a()=={'ext':1,'pad':'xxxxxxxxxxxx'}, a()
print('ok')
