import tempfile,os,json
from synced_collections.backends.collection_json import *
d=tempfile.mkdtemp()
for C,mk,chk in ((MemoryBufferedJSONDict,lambda o:o.__setitem__('a',1),{}),(MemoryBufferedJSONList,lambda o:o.append(1),[])):
  for op in ('clear','reset'):
    p=os.path.join(d,C.__name__+op+'.json')
    o=C(p)
    with C.buffer_backend():
        with o.buffered:
            mk(o)
        if op=='clear': o.clear()
        else: o.reset(chk)
        r=o()
        assert r==chk, ('read after '+op, C.__name__, r)
    assert json.load(open(p))==chk, (C.__name__, op, json.load(open(p)))
print('ok')
