import tempfile, os, json
from synced_collections.backends.collection_json import JSONDict, JSONList
d = tempfile.mkdtemp()
p = os.path.join(d, "a.json")
x = JSONDict(p); x["k"] = 1
x.update({"k": True})
got = JSONDict(p)()["k"]
assert got is True, ("update over a look-alike kept the old leaf", got)
p = os.path.join(d, "b.json")
y = JSONList(p); y.append(1.0)
y.reset([1])
got = JSONList(p)()[0]
assert type(got) is int, ("reset over a look-alike kept the old leaf", got)
print("ok")
