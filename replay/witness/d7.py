import tempfile,os,json
from synced_collections.backends.collection_json import *
d=tempfile.mkdtemp()
for C in (BufferedJSONDict, MemoryBufferedJSONDict):
    p=os.path.join(d,C.__name__+'.json')
    a=C(p); a['x']=1
    b=C(p)
    with C.buffer_backend():
        b['x']; a['x']; b['y']=2
    assert json.load(open(p))=={'x':1,'y':2}, json.load(open(p))
    assert C.get_current_buffer_size()==0 and len(C._buffer)==0
    assert a()==b()=={'x':1,'y':2}
print('ok')
