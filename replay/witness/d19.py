import tempfile,os,json
from synced_collections.backends.collection_json import *
d=tempfile.mkdtemp()
for C in (BufferedJSONDict, MemoryBufferedJSONDict):
    p=os.path.join(d,C.__name__+'.json')
    a=C(p); a['x']=1; b=C(p)
    with b.buffered, a.buffered:
        a['x']          # a loads the shared entry
        b.clear()       # root clear through the other object (saves without loading)
    got=json.load(open(p))
    assert got=={}, (C.__name__, 'clear through b lost; file holds', got)
print('ok')
