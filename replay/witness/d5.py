import tempfile,os,json
from synced_collections.backends.collection_json import MemoryBufferedJSONList
d=tempfile.mkdtemp()
p=os.path.join(d,'g.json')
x=MemoryBufferedJSONList(p); x.extend([1,2,3])
with x.buffered:
    x[0]
    x.reset([9])
    r=x()
assert r==[9], r
assert json.load(open(p))==[9]
print('ok')
