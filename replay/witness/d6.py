import tempfile,os,json
from synced_collections.backends.collection_json import *
d=tempfile.mkdtemp()
for C,init,op,exp in ((MemoryBufferedJSONList,[1,[2],3],lambda x:x.append(4),[1,[2],3,4]),(MemoryBufferedJSONAttrList,[1,[2]],lambda x:x[1].append(4),[1,[2,4]]),(MemoryBufferedJSONDict,{'a':{'b':1}},lambda x:x['a'].update(c=2),{'a':{'b':1,'c':2}})):
    p=os.path.join(d,C.__name__+'.json')
    x=C(p); x.reset(init)
    with C.buffer_backend():
        with x.buffered:
            op(x)
        assert x()==exp, x()
        ch=x[1] if isinstance(init,list) else x['a']
        assert type(ch).__name__.startswith('MemoryBuffered'), type(ch)
    assert json.load(open(p))==exp, json.load(open(p))
print('ok')
